"""Checks of the audio family: C16 (Wav edits), C17 (interval-driven extraction), C18 (zero crossings, splicing)."""
import json
import os
import random
import shutil
import sys
from concurrent.futures import ThreadPoolExecutor

from . import common
from . import tier as T
from . import audiofam as A

M = A.M
SIZES = {
    "quick": dict(MaxLen=4, readMaxLen=4, Depth=1, MaxIv=1, rand=4000, zcLen=5, zcRand=3000, splice=300),
    "thorough": dict(MaxLen=8, readMaxLen=5, Depth=1, MaxIv=2, rand=120000, zcLen=6, zcRand=100000, splice=8000),
}
PLANS = [(8, 1), (8, 2), (8, 4), (1000, 2), (44100, 2), (16000, 4), (8000, 1)]


def run_mc(mode, sz, work, res):
    nsl = min(common.NCPU, sz["MaxLen"] + 1)
    jobs = []
    for sl in range(nsl):
        c = dict(Mode=mode, MaxLen=sz["MaxLen"] if mode == "edit" else sz["readMaxLen"], Depth=sz["Depth"] if mode == "edit" else 1,
                 MaxIv=sz["MaxIv"], Emit=True,
                 Slice=sl, NSlices=nsl)
        fn = os.path.join(work, "MC_Audio_%s_%d.cfg" % (mode, sl))
        common.write_cfg(fn, c, invariants=["NoFail", "EmitInv"], constraints=["Bound"])
        jobs.append(fn)
    outs, fail = [], []
    with ThreadPoolExecutor(max_workers=common.NCPU) as ex:
        for r in ex.map(lambda fn: common.run_tlc("MC_Audio", fn, work, workers=1, timeout=7200), jobs):
            res.add_tlc(r)
            if common.tlc_failed(r):
                fail.append(r["out"][-3000:])
            outs.extend(common.parse_json_lines(r["out"]))
    if fail:
        sys.stderr.write(fail[0])
        raise common.MachineryError("MC_Audio (%s) failed at design level" % mode)
    return outs


def _edit_job(job):
    vecs, start, workdir = job
    out = []
    for i, (v, rate, width) in enumerate(vecs):
        fn = A.run_read if v["op"] in ("readAtTimes", "genSilence", "genSine", "extractSubwav") else A.run_edit
        out.append(fn(v, rate, width, start + i, workdir))
    return out


def parallel(fn, items, work, nchunks=None):
    import multiprocessing as mp
    n = nchunks or common.NCPU * 2
    size = max(1, len(items) // n + 1)
    jobs, start = [], 0
    for i in range(0, len(items), size):
        ch = items[i:i + size]
        jobs.append((ch, start, work))
        start += len(ch)
    if not jobs:
        return []
    with mp.get_context("fork").Pool(common.NCPU) as pool:
        res = pool.map(fn, jobs)
    return [e for ch in res for e in ch]


# rates at which rate * (k / rate) falls one ulp short of k for some sample indices k < 400 (so that truncating instead of rounding, or
# comparing without tolerance, shows on sample positions), with recordings long enough to contain such positions
LONG_PLANS = [(100, 2), (44100, 2), (48000, 4), (22050, 1), (11025, 2), (44100, 4)]
_AWK = {}


def awkward(rate, n):
    if rate not in _AWK:
        from fractions import Fraction
        _AWK[rate] = [k for k in range(0, 401) if int(rate * float(Fraction(k, rate))) != k]
    return [k for k in _AWK[rate] if k <= n]


def long_recording(rng):
    rate, width = LONG_PLANS[rng.randrange(len(LONG_PLANS))]
    L = rng.choice([60, 125, 240, 400])
    pre = A.long_ids(rng, L, width)
    L = len(pre)
    awk = awkward(rate, L)

    def pick():
        return (rng.choice(awk) if awk and rng.random() < 0.7 else rng.randint(0, L)) * M
    return rate, width, pre, pick


def rand_edit_vectors(n, seed):
    rng = random.Random(seed * 911 + 7)
    out = []
    for _ in range(n // 8):
        rate, width, pre, pick = long_recording(rng)
        op = rng.choice(["getSamples", "getFrames", "getSubwav", "deleteSegment", "insert", "replaceSegment", "insDel", "queryGetSamples", "queryGetSamples"])
        t0, t1 = sorted([pick(), pick()])
        frames = [[], [101], [101, 102, 103]][rng.randrange(3)]
        if op in ("insert", "insDel"):
            args = {"t": t0, "frames": frames}
        elif op == "replaceSegment":
            args = {"t0": t0, "t1": t1, "frames": frames}
        else:
            args = {"t0": t0, "t1": t1}
        out.append(({"op": op, "args": args, "pre": pre}, rate, width))
    ops = ["getSamples", "getFrames", "getSubwav", "deleteSegment", "insert", "replaceSegment", "concatenate", "insDel",
           "bytesRT", "saveOpen", "saveQuery", "queryGetSamples"]
    for _ in range(n):
        L = rng.choice([0, 1, 2, 3, 5, 8, 13, 30])
        pre = rng.sample(range(1, 40), min(L, 39))
        op = rng.choice(ops)
        t0, t1 = sorted([rng.randint(0, M * len(pre)), rng.randint(0, M * len(pre))])
        frames = [[], [101], [101, 102, 103]][rng.randrange(3)]
        if op in ("getSamples", "getFrames", "getSubwav", "deleteSegment", "queryGetSamples"):
            args = {"t0": t0, "t1": t1}
        elif op in ("insert", "insDel"):
            args = {"t": t0, "frames": frames}
        elif op == "replaceSegment":
            args = {"t0": t0, "t1": t1, "frames": frames}
        elif op == "concatenate":
            args = {"frames": frames}
        else:
            args = {"k": 0}
        rate, width = PLANS[rng.randrange(len(PLANS))]
        out.append(({"op": op, "args": args, "pre": pre}, rate, width))
    return out


def finish(res, prop, tier, events, work, prefixes, rule):
    for i, e in enumerate(events):
        e["id"] = i
    verdicts, nval, cmd = common.validate_traces("Trace_Audio", events, work, chunk=20000)
    res.cmds.append(cmd)
    res.traces += nval
    res.evaluations += len(events)
    rel = lambda c: any(c.startswith(p) for p in prefixes) or c == "UNKNOWN_OP"
    res.judge(events, verdicts, common.load_findings(), rel)
    res.rule = rule
    return res.finish(tier)


def check_c16(prop, tier):
    res = common.Result(prop)
    work = common.scratch()
    sz = SIZES[tier]
    try:
        A.mods()
        emitted = run_mc("edit", sz, work, res)
        res.exhaustive = True
        # design level only (no emission): histories of two (thorough: three) edits, every second edit from every recording the
        # first one can produce
        fn = os.path.join(work, "MC_Audio_deep.cfg")
        deep = dict(Mode="edit", MaxLen=3 if tier == "quick" else 4, Depth=2 if tier == "quick" else 3, MaxIv=sz["MaxIv"], Emit=False, Slice=0, NSlices=1)
        common.write_cfg(fn, deep, invariants=["NoFail"], constraints=["Bound"])
        r = common.run_tlc("MC_Audio", fn, work, workers=common.NCPU, timeout=7200)
        res.add_tlc(r)
        if common.tlc_failed(r):
            sys.stderr.write(r["out"][-3000:])
            raise common.MachineryError("MC_Audio deep design-level run failed")
        deep_note = dict(constants=deep, states=r["distinct"], transitions=r["generated"])
        plans = PLANS[:4] if tier == "quick" else PLANS
        items = [({"op": e["op"], "args": e["args"], "pre": e["pre"]}, r, w) for (r, w) in plans for e in emitted]
        items += rand_edit_vectors(sz["rand"], common.SEED)
        events = common.split_broken(res, prop, parallel(common.Guarded(_edit_job), items, work))
        events += common.split_broken(res, prop, A.run_histories(sz["rand"] // 10, common.SEED, len(events), work) +
                                      A.run_query_histories(sz["rand"] // 10, common.SEED, len(events), work))
        for ev in events:
            if ev["pre"]:
                offs = tuple(sorted((k, v % M) for k, v in ev["args"].items() if isinstance(v, int) and k.startswith("t")))
                res.distinct.add((ev["op"], ev["rate"], ev["width"], offs, ev["st"], ev["post"] != ev["pre"], min(len(ev["pre"]), 6)))
        if events:
            res.add_sample({k: events[0][k] for k in ("op", "args", "pre", "ret", "post", "rate", "width", "dur")})
            res.add_sample({k: events[-1][k] for k in ("op", "args", "pre", "ret", "post", "rate", "width", "dur")})
        res.notes = dict(enumerated_transitions=len(emitted), plans=plans, deep_design_run=deep_note)
        res.assumptions = ["sample ids are concretized by an injective map into the PCM value range of each width (including both extremes)",
                           "at an exact half sample either neighbour is accepted as 'nearest'"]
        return finish(res, prop, tier, events, work, ["C16_"],
                      "every transition of the TLC audio machine (recordings up to MaxLen samples, every time on the quarter-sample grid, "
                      "histories to Depth) replayed on real Wav objects for several (rate, width); plus random longer recordings and the "
                      "getFrames/getSubwav/bytes/save-open/QueryWav operations; distinct = (op, rate, width, sub-sample offsets, status, changed) classes")
    finally:
        shutil.rmtree(work, ignore_errors=True)


# --------------------------------------------------------------------------- C17

def rand_read_vectors(n, seed):
    rng = random.Random(seed * 577 + 3)
    out = []
    for _ in range(n // 8):
        rate, width, pre, pick = long_recording(rng)
        if rng.random() < 0.6:
            pts = sorted(set(pick() for _k in range(2 * rng.randint(1, 3))))
            pts = pts[: len(pts) // 2 * 2]
            ivs = [{"s": pts[i], "e": pts[i + 1]} for i in range(0, len(pts) - 1, 2)]
            keepmode = rng.random() < 0.5
            out.append(({"op": "readAtTimes", "args": {"keep": ivs if keepmode else [], "delete": [] if keepmode else ivs,
                                                       "gen": rng.choice(["none", "none", "silence", "sine"])}, "pre": pre}, rate, width))
        else:
            t0, t1 = sorted([pick(), pick()])
            out.append(({"op": "extractSubwav", "args": {"t0": t0, "t1": t1}, "pre": pre}, rate, width))
    for _ in range(n):
        L = rng.choice([1, 2, 3, 5, 8, 12])
        pre = rng.sample(range(1, 40), L)
        total = M * L
        rate, width = PLANS[rng.randrange(len(PLANS))]
        r = rng.random()
        if r < 0.55:
            on = rng.random() < 0.6
            k = rng.randint(0, 3)
            pts = sorted(rng.sample(range(0, total + 1), min(2 * k, total + 1) // 2 * 2))
            if on:
                pts = sorted(set((p // M) * M for p in pts))
                pts = pts[: len(pts) // 2 * 2]
            ivs = [{"s": pts[i], "e": pts[i + 1]} for i in range(0, len(pts) - 1, 2) if pts[i] < pts[i + 1]]
            if rng.random() < 0.08:
                ivs.append({"s": max([total - 1] + [x["e"] for x in ivs]), "e": total + rng.randint(1, 9)})   # beyond the recording
            keepmode = rng.random() < 0.5
            other = [{"s": 0, "e": M}] if rng.random() < 0.05 else []
            args = {"keep": ivs if keepmode else other, "delete": other if keepmode else ivs,
                    "gen": rng.choice(["none", "none", "silence", "sine"])}
            out.append(({"op": "readAtTimes", "args": args, "pre": pre}, rate, width))
        elif r < 0.7:
            out.append(({"op": rng.choice(["genSilence", "genSine"]), "args": {"d": rng.randint(0, 60)}, "pre": []}, rate, width))
        else:
            t0, t1 = sorted([rng.randint(0, total), rng.randint(0, total)])
            if rng.random() < 0.5:
                t0, t1 = (t0 // M) * M, (t1 // M) * M
            out.append(({"op": "extractSubwav", "args": {"t0": t0, "t1": t1}, "pre": pre}, rate, width))
    return out


def rand_split_vectors(n, seed):
    rng = random.Random(seed * 1201 + 9)
    out = []
    for _ in range(n):
        L = rng.choice([4, 6, 9, 12])
        pre = rng.sample(range(1, 40), L)
        total = M * L
        on = rng.random() < 0.6
        k = rng.randint(1, 3)
        pts = sorted(rng.sample(range(0, total + 1), 2 * k))
        if on:
            pts = sorted(set((p // M) * M for p in pts))
            pts = pts[: len(pts) // 2 * 2]
        ents = [{"s": pts[i], "e": pts[i + 1], "l": "w%d" % (i // 2 + 1)} for i in range(0, len(pts) - 1, 2) if pts[i] < pts[i + 1]]
        if not ents:
            continue
        others = []
        for _k in range(rng.randint(0, 2)):
            t = T.rand_tier(rng, rng.choice(["I", "P"]), 3, total)
            others.append(t)
        rate, width = PLANS[rng.randrange(len(PLANS))]
        style = rng.choice([None, "append", "append_no_i", "label"])
        if style in (None, "append") and rng.random() < 0.4:
            for x in ents:
                x["l"] = "w1"            # entries sharing a label: these two styles still name one file per entry (the index)
        out.append(({"pre": pre, "entries": ents, "others": others, "style": style,
                     "nopartial": rng.random() < 0.5, "tgflag": rng.random() < 0.6}, rate, width))
    return out


def _split_job(job):
    vecs, start, workdir = job
    out = []
    for i, (v, rate, width) in enumerate(vecs):
        out.extend(A.run_split(v, rate, width, start + i, workdir))
    return out


def check_c17(prop, tier):
    res = common.Result(prop)
    work = common.scratch()
    sz = SIZES[tier]
    try:
        A.mods()
        emitted = run_mc("read", sz, work, res)
        res.exhaustive = True
        plans = PLANS[:3] if tier == "quick" else PLANS
        items = [({"op": e["op"], "args": e["args"], "pre": e["pre"]}, r, w) for (r, w) in plans for e in emitted]
        items += rand_read_vectors(sz["rand"], common.SEED)
        events = parallel(common.Guarded(_edit_job), items, work)
        events += parallel(common.Guarded(_split_job), rand_split_vectors(sz["rand"] // 8, common.SEED), work)
        events = common.split_broken(res, prop, events)
        for ev in events:
            a = ev["args"]
            key = (ev["op"], ev["rate"], ev["width"], ev["st"], a.get("gen"), len(a.get("keep", [])), len(a.get("delete", [])),
                   a.get("style"), a.get("tgflag"), a.get("nopartial"),
                   tuple(sorted((k, v % M) for k, v in a.items() if isinstance(v, int) and k in ("t0", "t1", "d"))))
            res.distinct.add(key)
        if events:
            res.add_sample({k: events[0][k] for k in ("op", "args", "pre", "ret", "st", "rate", "width")})
            res.add_sample({k: events[-1][k] for k in ("op", "args", "pre", "ret", "st", "rate", "width")})
        res.notes = dict(enumerated_transitions=len(emitted), plans=plans)
        res.assumptions = ["generated samples project to id 0 / -1; kept samples are identified by their distinct ids",
                           "the cropped TextGrids written by splitAudioOnTier are read back with praatio's own reader (C03 covers the reader)"]
        return finish(res, prop, tier, events, work, ["C17_"],
                      "every keep/delete interval list of the TLC read universe (quarter-sample grid, with and without replacement) replayed on "
                      "real wave files for several (rate, width); random longer lists, generators, extractSubwav and splitAudioOnTier over random "
                      "multi-tier textgrids x nameStyle x noPartialIntervals x outputTGFlag; distinct = (op, rate, width, status, options, offsets) classes")
    finally:
        shutil.rmtree(work, ignore_errors=True)


# --------------------------------------------------------------------------- C18

def run_zc_mc(sz, work, res):
    fn = os.path.join(work, "ZeroCross.cfg")
    with open(fn, "w") as f:
        f.write("CONSTANTS\n  MaxLen = %d\n  VMax = 2\n  Steps = {2, 3}\n  Emit = TRUE\nSPECIFICATION Spec\nINVARIANT ResultOK\n"
                "INVARIANT EmitInv\nPROPERTY Termination\nPROPERTY Progress\nCHECK_DEADLOCK FALSE\n" % sz["zcLen"])
    r = common.run_tlc("ZeroCross", fn, work, workers=1, timeout=7200)
    res.add_tlc(r)
    if common.tlc_failed(r):
        sys.stderr.write(r["out"][-3000:])
        raise common.MachineryError("ZeroCross machine failed at design level")
    return common.parse_json_lines(r["out"])


_HANGS = [0]


def _zc_job(job):
    vecs, start, workdir = job
    out = []
    for i, v in enumerate(vecs):
        kind = v[0]
        if kind == "find":
            if _HANGS[0] >= 2:
                continue            # non-termination is established (per worker process); every further hang costs the time limit
            _, samples, t, step, rate, width, pred = v
            ev = A.run_findzc(samples, t, step, rate, width, start + i, limit=2)
            _HANGS[0] += 1 if ev["hung"] else 0
            ev["pred"] = pred
        elif kind == "findh":
            if _HANGS[0] >= 2:
                continue
            _, samples, t, step, rate, width, hist = v
            ev = A.run_findzc(samples, t, step, rate, width, start + i, limit=2, history=hist)
            _HANGS[0] += 1 if ev["hung"] else 0
        elif kind == "tgzc":
            ev = A.run_tgzc(v[1], v[2], v[3], start + i)
        else:
            ev = A.run_splice(v[1], v[2], v[3], start + i)
        out.append(ev)
    return out


def rand_zc_vectors(sz, seed):
    rng = random.Random(seed * 4099 + 1)
    out = []
    kinds = ["random", "positive", "zeros", "sparsezero", "single", "sine"]
    for _ in range(sz["zcRand"]):
        L = rng.randint(1, 40)
        kind = rng.choice(kinds)
        if kind == "random":
            s = [rng.randint(-5, 5) for _ in range(L)]
        elif kind == "positive":
            s = [rng.randint(1, 5) for _ in range(L)]
        elif kind == "zeros":
            s = [0] * L
        elif kind == "sparsezero":
            s = [rng.choice([3, 4, 5]) for _ in range(L)]
            s[rng.randrange(L)] = 0
        elif kind == "single":
            k = rng.randrange(L)
            s = [2] * k + [-2] * (L - k)
        else:
            import math
            s = [int(round(5 * math.sin(i * 0.7 + 0.3))) for i in range(L)]
        rate, width = rng.choice([(8, 1), (1024, 2), (8, 4), (1000, 2), (16000, 1), (44100, 2)])
        dy = rate in (8, 1024)
        on = rng.random() < 0.75
        t = rng.randint(0, L) * M if on else rng.randint(0, L * M)
        if rng.random() < 0.15:
            # arbitrary target times, also before the start and after the end: termination, range and genuineness still hold
            t = rng.randint(-3 * L * M - 12, -1) if rng.random() < 0.5 else rng.randint(L * M + 1, 4 * L * M + 12)
        step = rng.choice([2 * M, 3 * M, 5 * M] if dy else [10, 3 * M, 5 * M + 1])
        if rng.random() < 0.04:
            step = rng.choice([1, M, M + 2])                     # fewer than two samples: must be rejected
        if rng.random() < 0.15 and L >= 2:
            # the same recording, reached on one Wav object by a search followed by an in-place insert
            p = rng.randint(0, L - 1)
            n_ins = rng.randint(1, min(4, L - p))
            out.append(("findh", s, t, step, rate, width, (p, s[p:p + n_ins])))
        else:
            out.append(("find", s, t, step, rate, width, None))
    return out


def rand_tgzc_splice_vectors(sz, seed):
    rng = random.Random(seed * 8191 + 5)
    out = []
    for _ in range(sz["splice"]):
        L = rng.randint(24, 48)
        # tgBoundariesToZeroCrossings uses the default 2 ms search step: needs at least 1 kHz audio
        rate, width = rng.choice([(1024, 2), (1000, 1), (1000, 2), (1024, 4)])
        # dense crossings: no boundary has to travel far, so boundaries 8 samples apart never collide
        s = []
        sign = 1
        while len(s) < L:
            run = rng.randint(1, 3)
            s += [sign * rng.randint(1, 5) for _ in range(run)]
            sign = -sign
        s = s[:L]
        if rng.random() < 0.3:
            s[rng.randrange(L)] = 0
        pts = list(range(0, L + 1, 8))
        rng.shuffle(pts)
        b = sorted(pts[: rng.randint(2, len(pts))])
        ents = [{"s": b[i] * M, "e": b[i + 1] * M, "l": "w%d" % i} for i in range(len(b) - 1) if rng.random() < 0.8]
        ptimes = sorted(rng.sample(range(0, L + 1, 8), rng.randint(0, 3)))
        tiers = [{"kind": "I", "name": "words", "ents": ents}, {"kind": "P", "name": "marks", "ents": [{"t": t * M, "l": "m"} for t in ptimes]}]
        if rng.random() < 0.45:
            # by default both kinds of tier are adjusted; each flag may be switched off (those tiers then stay as they are)
            r = rng.random()
            flags = {"adjP": r >= 0.2, "adjI": not (0.2 <= r < 0.35)}
            third = [{"kind": "I", "name": "phones", "ents": [dict(x, l="p") for x in ents[::2]]}] if rng.random() < 0.5 else []
            out.append(("tgzc", {"samples": s, "tiers": tiers + third, "flags": flags}, rate, width))
        else:
            audio_ids = list(range(1, L + 1))
            align = rng.random() < 0.3
            splice = list(range(101, 101 + (rng.randint(10, 20) if align else rng.randint(1, 6))))
            start = rng.choice(b) * M
            stop = None
            if rng.random() < 0.5:
                later = [x for x in b if x * M > start]
                if later:
                    stop = rng.choice(later) * M
            out.append(("splice", {"audio": audio_ids, "splice": splice, "tiers": tiers, "tier": 1, "start": start, "stop": stop,
                                   "align": align}, rate, width))
    return out


def check_c18(prop, tier):
    res = common.Result(prop)
    work = common.scratch()
    sz = SIZES[tier]
    try:
        A.mods()
        emitted = run_zc_mc(sz, work, res)
        res.exhaustive = True
        items = []
        for k, (rate, width) in enumerate([(8, 1), (1024, 2), (8, 4)][: (1 if tier == "quick" else 3)]):
            for e in emitted:
                items.append(("find", e["samples"], e["target"] * M, e["step"] * M, rate, width,
                              {"pc": e["pc"], "result": e["result"]}))
        items += rand_zc_vectors(sz, common.SEED)
        items += rand_tgzc_splice_vectors(sz, common.SEED)
        events = common.split_broken(res, prop, parallel(common.Guarded(_zc_job), items, work))
        ndrift = 0
        for ev in events:
            p = ev.pop("pred", None)
            if p is not None:
                real = ("done", ev["ret"] // M) if ev["st"] == "ok" and ev["ret"] >= 0 else ("error", -1)
                if real != (p["pc"], p["result"]):
                    ndrift += 1
            if ev["op"] == "findZc":
                res.distinct.add((ev["op"], ev["st"], ev["args"]["t"] % M, ev["args"]["step"], min(len(ev["samples"]), 8),
                                  tuple(sorted(set(1 if v > 0 else -1 if v < 0 else 0 for v in ev["samples"])))))
            else:
                res.distinct.add((ev["op"], ev["st"], ev["rate"], ev["width"], json.dumps(ev["args"], sort_keys=True)))
        if events:
            res.add_sample({k: events[0][k] for k in ("op", "samples", "args", "st", "ret", "hung")})
            res.add_sample({k: v for k, v in events[-1].items() if k in ("op", "args", "st", "retaudio", "rettg", "pretg")})
        res.notes = dict(machine_runs=len(emitted), impl_drift=ndrift)
        res.assumptions = ["a search that burns more than 2 s of CPU time of its process (measured: < 1 ms) counts as non-termination; wall time is not used, so a worker that is merely not scheduled on a busy machine is not a hang",
                           "splice and tgBoundariesToZeroCrossings are exercised on sample positions; alignToZeroCrossing=True splices are "
                           "judged only on the clauses that do not depend on where the crossings are"]
        return finish(res, prop, tier, events, work, ["C18_"],
                      "every (recording over {-2..2} up to zcLen samples, on-sample target, step) of the TLC loop machine (termination, genuine "
                      "crossing) replayed on real Wav objects; random recordings (all-positive, all-zero, sparse zero, single crossing, sine), "
                      "on/off-sample targets, too-small steps; tgBoundariesToZeroCrossings and audioSplice on random textgrids; "
                      "distinct = (op, status, offsets, step, shape) classes")
    finally:
        shutil.rmtree(work, ignore_errors=True)
