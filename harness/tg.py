"""Textgrid family: concretize abstract textgrids, execute Textgrid-level calls on the real code, project."""
import contextlib
import io
import os
import random

from . import common
from . import tier as T

NOTG = {"lo": -2, "hi": -2, "tiers": []}


def mk_tg(tg, emb, pool, primed=False):
    """primed: the same textgrid reached through a short history - tiers built through mk_tier_primed, one extra tier added in
    front, every read-only view read once, the extra tier removed again"""
    textgrid = T.praatio()[0]
    lo = None if tg["lo"] == -1 else emb.g(tg["lo"])
    hi = None if tg["hi"] == -1 else emb.g(tg["hi"])
    obj = textgrid.Textgrid(lo, hi)
    for t in tg["tiers"]:
        # populate the ordered map directly through the public constructor path: append, no reporting
        obj.addTier((T.mk_tier_primed if primed else T.mk_tier)(t, emb, pool), reportingMode="silence")
    if primed and tg["tiers"]:
        t0 = tg["tiers"][0]
        with contextlib.redirect_stdout(io.StringIO()):
            obj.addTier(T.mk_tier(dict(t0, name="zz-extra", ents=[]), emb, pool), tierIndex=0, reportingMode="silence")
            _ = obj.tierNames, obj.tiers, obj.validate("silence"), obj == obj, obj.getTier("zz-extra")
            obj.removeTier("zz-extra")
    # the abstract state fixes the span (addTier may only have widened it to the same hull)
    obj.minTimestamp, obj.maxTimestamp = lo, hi
    return obj


def proj_tg(pj, obj):
    if obj is None:
        return NOTG
    lo = -1 if obj.minTimestamp is None else pj.t(obj.minTimestamp)
    hi = -1 if obj.maxTimestamp is None else pj.t(obj.maxTimestamp)
    return {"lo": lo, "hi": hi, "tiers": [pj.tier(t) for t in obj.tiers]}


def each_of(tiers, fn, pj):
    out = []
    for t in tiers:
        try:
            with contextlib.redirect_stdout(io.StringIO()):
                r = fn(t)
            out.append({"st": "ok", "ret": pj.tier(r)})
        except Exception as ex:  # noqa
            out.append({"st": type(ex).__name__, "ret": T.NONE})
    return out


def union_fold(tiers, pj):
    try:
        acc = tiers[0]
        for t in tiers[1:]:
            acc = acc.union(t)
        return {"st": "ok", "ret": pj.tier(acc)}
    except Exception as ex:  # noqa
        return {"st": type(ex).__name__, "ret": T.NONE}


def run_vector(vec, emb, pool, eid, recv=None, argt_obj=None):
    """argt_obj: a tier object the caller has handed to the textgrid before; vec["argt"] is then the value it had when it was
    built - to the caller it still denotes that tier"""
    textgrid, errors, _ = T.praatio()
    pj = T.Proj(emb, pool)
    g = emb.g
    fresh = recv is None
    if recv is None:
        recv = mk_tg(vec["pre"], emb, pool, primed=(eid % 4 == 1))
    if argt_obj is not None:
        argt = argt_obj
    else:
        argt = T.mk_tier(vec["argt"], emb, pool) if vec["argt"]["kind"] != "none" else None
    argtg = mk_tg(vec["argtg"], emb, pool) if vec["argtg"]["lo"] != -2 else None
    pre = proj_tg(pj, recv)
    argtpre = pj.tier(argt) if argt_obj is None else vec["argt"]
    argtgpre = proj_tg(pj, argtg)
    op, a = vec["op"], vec["args"]
    each = []
    tiers = list(recv.tiers)
    # the same operation on each tier on its own (on copies, so the receiver is not involved)
    if op == "cropTg":
        each = each_of(tiers, lambda t: t.new().crop(g(a["a"]), g(a["b"]), a["mode"], a["rebase"]), pj)
    elif op == "eraseTg":
        each = each_of(tiers, lambda t: t.new().eraseRegion(g(a["a"]), g(a["b"]), "truncate", a["shrink"]), pj)
    elif op == "spaceTg":
        each = each_of(tiers, lambda t: t.new().insertSpace(g(a["s"]), emb.gd(a["d"]), a["mode"]), pj)
    elif op == "editTg":
        each = each_of(tiers, lambda t: t.new().editTimestamps(emb.gd(a["o"]), a["mode"]), pj)
    elif op == "alignTg":
        reft = recv.getTier(a["ref"]).new()
        each = each_of(tiers, lambda t: t.new() if t.name == a["ref"] else t.new().dejitter(reft, emb.gd(a["D"])), pj)
    elif op == "mergeTg":
        names = a["names"]
        if all(n in recv.tierNames for n in names):
            sel = [recv.getTier(n).new() for n in names]
            ivs = [t for t in sel if isinstance(t, textgrid.IntervalTier)]
            pts = [t for t in sel if isinstance(t, textgrid.PointTier)]
            if ivs:
                each.append(union_fold(ivs, pj))
            if pts:
                each.append(union_fold(pts, pj))
    cap = common.Capture()
    st, pe, ret, rett = "ok", False, None, None
    before_ids = [id(t) for t in recv.tiers]
    sentinel = b"previous content of the destination \xff\x00\n"
    if op == "saveTg":
        import tempfile
        fd, path = tempfile.mkstemp(prefix="praatio-verif-save-", dir=os.environ.get("TMPDIR", "/tmp"))
        os.write(fd, sentinel)
        os.close(fd)
        a = dict(a, _path=path)
    try:
        with cap:
            if op == "addTier":
                recv.addTier(argt, None if a["idx"] == 99 else a["idx"], a["mode"])
            elif op == "removeTier":
                rett = recv.removeTier(a["name"])
            elif op == "renameTier":
                recv.renameTier(a["old"], a["new"])
            elif op == "replaceTier":
                recv.replaceTier(a["name"], argt, a["mode"])
            elif op == "cropTg":
                ret = recv.crop(g(a["a"]), g(a["b"]), a["mode"], a["rebase"])
            elif op == "eraseTg":
                ret = recv.eraseRegion(g(a["a"]), g(a["b"]), a["shrink"])
            elif op == "spaceTg":
                ret = recv.insertSpace(g(a["s"]), emb.gd(a["d"]), a["mode"])
            elif op == "editTg":
                ret = recv.editTimestamps(emb.gd(a["o"]), a["mode"])
            elif op == "appendTg":
                ret = recv.appendTextgrid(argtg, a["only"])
            elif op == "mergeTg":
                ret = recv.mergeTiers(list(a["names"]), a["preserve"])
            elif op == "newTg":
                ret = recv.new()
            elif op == "alignTg":
                from praatio import praatio_scripts
                # the function edits the textgrid it is given: hand it a copy, so that the event shows input and output
                ret = praatio_scripts.alignBoundariesAcrossTiers(recv.new(), a["ref"], emb.gd(a["D"]))
            elif op == "validateTg":
                recv.validate(a["mode"])
            elif op == "saveTg":
                kw = {}
                if a["lo"] is not None:
                    kw["minTimestamp"] = g(a["lo"])
                if a["hi"] is not None:
                    kw["maxTimestamp"] = g(a["hi"])
                recv.save(a["_path"], a["fmt"], a["blanks"], reportingMode=a["mode"], **kw)
            else:
                raise common.MachineryError("unknown tg op " + op)
    except common.MachineryError:
        raise
    except Exception as ex:  # noqa
        st = type(ex).__name__
        pe = isinstance(ex, errors.PraatioException)
        ret, rett = None, None
    valid = True
    alias = False
    if isinstance(ret, textgrid.Textgrid):
        try:
            with contextlib.redirect_stdout(io.StringIO()):
                valid = bool(ret.validate("silence"))
        except Exception:  # noqa
            valid = False
        alias = any(id(t) in before_ids for t in ret.tiers)
    filesame = True
    if op == "saveTg":
        with open(a["_path"], "rb") as f:
            filesame = f.read() == sentinel
        os.remove(a["_path"])
        a = {k: (v if v is not None else -1) for k, v in a.items() if k != "_path"}
    ev = {
        "id": eid, "fam": "tg", "op": op, "args": a, "pre": pre, "argt": argtpre, "argtg": argtgpre,
        "st": st, "pe": pe, "ret": proj_tg(pj, ret if isinstance(ret, textgrid.Textgrid) else None),
        "rett": pj.tier(rett) if rett is not None else T.NONE,
        "post": proj_tg(pj, recv), "argtpost": pj.tier(argt), "argtgpost": proj_tg(pj, argtg),
        "out": cap.any, "each": each, "valid": valid, "alias": alias, "filesame": filesame,
        "arith": True, "exactfp": emb.dyadic, "offgrid": 0, "emb": emb.name, "variant": eid % 4,
        "pool": next((k for k, v in T.POOLS.items() if v is pool), "ascii"),
    }
    ev["offgrid"] = pj.offgrid
    # behavioural probe (one fresh replay in four): an entry deleted from every tier of the returned textgrid must not show in
    # the receiver or in the argument textgrid
    if op == "newTg" and isinstance(ret, textgrid.Textgrid) and fresh and eid % 2 == 0 and not alias:
        try:
            with contextlib.redirect_stdout(io.StringIO()):
                for t in ret.tiers:
                    if len(t.entries):
                        t.deleteEntry(t.entries[0])
            pj2 = T.Proj(emb, pool)
            ev["alias"] = bool(proj_tg(pj2, recv) != ev["post"] or proj_tg(pj2, argtg) != ev["argtgpost"])
        except Exception:  # noqa - the probe itself is not under test
            pass
    return ev, ret


def _replay_chunk(job):
    vecs, embname, poolname, start = job
    emb, pool = T.EMBS[embname], T.POOLS[poolname]
    out = []
    for i, v in enumerate(vecs):
        try:
            ev, _ = run_vector(v, emb, pool, start + i)
        except common.MachineryError:
            raise
        except Exception as ex:  # noqa
            ev = T.broken_event(start + i, v, ex)
        out.append(ev)
    return out


def replay(vectors, plans, start_id=0):
    import multiprocessing as mp
    jobs = []
    nid = start_id
    size = max(100, min(3000, len(vectors) // (2 * common.NCPU) + 1))
    for embname, poolname in plans:
        for i in range(0, len(vectors), size):
            ch = vectors[i:i + size]
            jobs.append((ch, embname, poolname, nid))
            nid += len(ch)
    if not jobs:
        return []
    common.settle_memory()
    with mp.get_context("fork").Pool(common.NCPU) as pool:
        res = pool.map(_replay_chunk, jobs)
    return [e for ch in res for e in ch]


# --------------------------------------------------------------------------- random vectors / histories

def rand_tg(rng, ntiers, HI, names=("n1", "n2", "n3", "n4"), valid=True):
    tiers = []
    used = rng.sample(list(names), min(ntiers, len(names)))
    for n in used:
        t = T.rand_tier(rng, rng.choice(["I", "P"]), 5, HI, name=n)
        t["lo"], t["hi"] = 0, HI
        if not valid and rng.random() < 0.4:
            last = max([x.get("e", x.get("t")) for x in t["ents"]] + [1])
            t["hi"] = rng.randint(last, HI)
        tiers.append(t)
    return {"lo": 0, "hi": HI, "tiers": tiers}


def rand_edit_vectors(ops, n, seed):
    rng = random.Random(seed * 31337 + 5)
    HI = 10000
    out = []
    for _ in range(n):
        op = rng.choice(ops)
        # regions / insertion points must lie inside every tier's span (the properties' quantifier): tiers with a
        # narrower span than the textgrid's are only generated for the operations without that premise
        pre = rand_tg(rng, rng.randint(1, 4), HI, valid=(op in ("eraseTg", "spaceTg") or rng.random() < 0.8))
        probe = pre["tiers"][rng.randrange(len(pre["tiers"]))]
        argtg = NOTG
        if op == "cropTg":
            a, b = T.interesting_times(rng, probe, HI, 2)
            if rng.random() < 0.9 and a > b:
                a, b = b, a
            args = {"a": a, "b": b, "mode": rng.choice(["strict", "lax", "truncated"]), "rebase": rng.random() < 0.5}
        elif op == "eraseTg":
            a, b = T.interesting_times(rng, probe, HI, 2)
            a, b = min(a, HI), min(b, HI)
            if rng.random() < 0.95 and a > b:
                a, b = b, a
            args = {"a": a, "b": b, "shrink": rng.random() < 0.6}
        elif op == "spaceTg":
            args = {"s": min(T.interesting_times(rng, probe, HI, 1)[0], HI), "d": rng.randint(1, 3000),
                    "mode": rng.choice(["stretch", "split", "no_change", "error"])}
        elif op == "editTg":
            args = {"o": rng.randint(-HI - 5, 3000), "mode": rng.choice(["silence", "warning", "error"])}
        elif op == "appendTg":
            # second textgrid: tiers with the same name have the same type
            kinds = {t["name"]: t["kind"] for t in pre["tiers"]}
            HI2 = rng.choice([1, 2000, 5000])
            other = rand_tg(rng, rng.randint(1, 4), HI2)
            for t in other["tiers"]:
                if t["name"] in kinds and kinds[t["name"]] != t["kind"]:
                    t2 = T.rand_tier(rng, kinds[t["name"]], 4, HI2, name=t["name"])
                    t2["lo"], t2["hi"] = 0, HI2
                    t.clear()
                    t.update(t2)
            argtg = other
            args = {"only": rng.random() < 0.5}
        elif op == "mergeTg":
            names = [t["name"] for t in pre["tiers"]]
            rng.shuffle(names)
            args = {"names": names[: rng.randint(1, len(names))], "preserve": rng.random() < 0.5}
        elif op == "newTg":
            args = {"k": 0}
        elif op == "alignTg":
            ref = rng.choice(pre["tiers"])
            D = rng.choice([1, 2, 5, 40, 300])
            ts = sorted(set(v for x in ref["ents"] for v in ([x["s"], x["e"]] if "s" in x else [x["t"]])))
            # the function rejects a reference whose timestamps (from the second one on) are closer than maxDifference
            # (exactly maxDifference apart: decided by float rounding on the non-dyadic millisecond grid, so counted as dense)
            diffs = [b2 - a2 for a2, b2 in zip(ts[1:], ts[2:])]
            if diffs and rng.random() < 0.35:
                D = min(diffs)                        # the smallest spacing exactly: not "too dense"
            dense = any(b2 - a2 < D for a2, b2 in zip(ts[1:], ts[2:]))
            tie = any(b2 - a2 == D for a2, b2 in zip(ts[1:], ts[2:]))
            # jitter the other tiers around the reference timestamps
            for t in pre["tiers"]:
                if t is ref or not ts or rng.random() < 0.3:
                    continue
                for x in t["ents"]:
                    for k in (("s", "e") if "s" in x else ("t",)):
                        if rng.random() < 0.5:
                            v = rng.choice(ts) + rng.choice([-D - 1, -D, -1, 0, 1, D, D + 1])
                            x[k] = min(max(v, 0), HI)
                if t["kind"] == "I":
                    es = sorted((x for x in t["ents"] if x["s"] < x["e"]), key=lambda x: (x["s"], x["e"]))
                    keep, last = [], 0
                    for x in es:
                        if x["s"] >= last:
                            keep.append(x)
                            last = x["e"]
                    t["ents"] = keep
                else:
                    t["ents"] = sorted(t["ents"], key=lambda x: x["t"])
            args = {"ref": ref["name"], "D": D, "dense": dense, "tie": tie}
        elif op == "validateTg":
            args = {"mode": rng.choice(["silence", "warning", "error"])}
        elif op == "saveTg":
            firsts = [x.get("s", x.get("t")) for t in pre["tiers"] for x in t["ents"][:1]]
            lasts = [x.get("e", x.get("t")) for t in pre["tiers"] for x in t["ents"][-1:]]
            lo = hi = None
            r = rng.random()
            if r < 0.25 and firsts:
                lo = min(firsts) + rng.randint(1, 50)            # an entry falls before the requested span: must raise
            elif r < 0.4 and lasts:
                hi = max(lasts) - rng.randint(1, 50)
            elif r < 0.5:
                hi = HI + 100
            args = {"fmt": rng.choice(["short_textgrid", "long_textgrid", "json", "textgrid_json", "bogus"] if rng.random() < 0.3
                                      else ["short_textgrid", "long_textgrid", "json", "textgrid_json"]),
                    "blanks": rng.random() < 0.7, "lo": lo, "hi": hi, "mode": rng.choice(["silence", "silence", "error"])}
        else:
            continue
        out.append({"op": op, "args": args, "pre": pre, "argt": T.NONE, "argtg": argtg})
    return out


def map_histories(nhist, seed, start_id, maxlen=10):
    """random addTier/removeTier/renameTier/replaceTier histories on ONE live Textgrid each (dyadic times)"""
    rng = random.Random(seed * 7 + 99)
    emb, pool = T.EMBS["dy"], T.POOLS["ascii"]
    names = ["n1", "n2", "n3", "n4"]
    events = []
    eid = start_id
    textgrid = T.praatio()[0]
    for h in range(nhist):
        live = textgrid.Textgrid() if rng.random() < 0.5 else textgrid.Textgrid(0.0, emb.g(32))
        handed = []                      # (tier object, its value when built): tiers this caller has handed over before
        for step in range(rng.randint(2, maxlen)):
            pj = T.Proj(emb, pool)
            pre = proj_tg(pj, live)
            r = rng.random()
            n_t = len(pre["tiers"])

            def new_tier(nm):
                t = T.rand_tier(rng, rng.choice(["I", "P"]), 3, 32, name=nm)
                if rng.random() < 0.5:
                    t["lo"], t["hi"] = 0, 32
                if rng.random() < 0.2:
                    t["hi"] = 48
                    t["lo"] = 0
                return t
            argt = T.NONE
            if r < 0.45 and n_t < 5:
                op = "addTier"
                argt = new_tier(rng.choice(names))
                args = {"idx": rng.choice([99] + list(range(-2, n_t + 3))), "mode": rng.choice(["silence", "warning", "error", "error", "bogus"])}
            elif r < 0.6:
                op = "removeTier"
                args = {"name": rng.choice(names)}
            elif r < 0.8:
                op = "renameTier"
                present = [t["name"] for t in pre["tiers"]]
                args = {"old": rng.choice(present) if present and rng.random() < 0.7 else rng.choice(names), "new": rng.choice(names)}
            else:
                op = "replaceTier"
                argt = new_tier(rng.choice(names))
                args = {"name": rng.choice(names), "mode": rng.choice(["silence", "warning", "error", "error", "bogus"])}
            obj = None
            if argt is not T.NONE:
                if handed and rng.random() < 0.4:
                    obj, argt = rng.choice(handed)          # the same tier object again
                else:
                    obj = T.mk_tier(argt, emb, pool)
                    handed.append((obj, argt))
            vec = {"op": op, "args": args, "pre": pre, "argt": argt, "argtg": NOTG}
            try:
                ev, _ = run_vector(vec, emb, pool, eid, recv=live, argt_obj=obj)
            except common.MachineryError:
                raise
            except Exception as ex:  # noqa
                events.append(T.broken_event(eid, vec, ex))
                eid += 1
                break
            ev["hist"], ev["step"] = h, step
            events.append(ev)
            eid += 1
    return events


def sim_histories(behaviours, start_id, embname="dy", poolname="ascii"):
    """replays TLC-simulated behaviours of MC_Tg (map mode) step by step on ONE live Textgrid each"""
    emb, pool = T.EMBS[embname], T.POOLS[poolname]
    textgrid = T.praatio()[0]
    events, eid, drift = [], start_id, 0
    for h, states in enumerate(behaviours):
        live = textgrid.Textgrid()
        for step, st in enumerate(states):
            o = st["out"]
            if o.get("op", "none") == "none":
                continue
            vec = {"op": o["op"], "args": o["args"], "pre": o["pre"], "argt": o["argt"], "argtg": o["argtg"]}
            try:
                ev, _ = run_vector(vec, emb, pool, eid, recv=live)
            except common.MachineryError:
                raise
            except Exception as ex:  # noqa
                events.append(T.broken_event(eid, vec, ex))
                eid += 1
                break
            ev["hist"], ev["step"] = h, step
            if (ev["st"], ev["post"]) != (o["st"], o["post"]):
                drift += 1
            events.append(ev)
            eid += 1
    return events, drift
