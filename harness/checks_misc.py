"""C19 (KlattGrid / point objects) and C20 (numeric series helpers)."""
import contextlib
import io
import json
import math
import os
import random
import shutil
import sys
from concurrent.futures import ThreadPoolExecutor

from . import common
from . import tier as T
from . import filefam as F
from . import klattfam as K

SIZES = {
    "quick": dict(kdepth=3, khist=25, fixture=3, prand=600, sMaxLen=5, sVMax=3, srand=3000),
    "thorough": dict(kdepth=4, khist=300, fixture=40, prand=20000, sMaxLen=7, sVMax=3, srand=120000),
}


def finish(res, prop, tier, events, work, prefixes, rule):
    for i, e in enumerate(events):
        e["id"] = i
    verdicts, nval, cmd = common.validate_traces("Trace_Klatt", events, work, chunk=300 if prop == "C19" else 20000)
    res.cmds.append(cmd)
    res.traces += nval
    res.evaluations += len(events)
    rel = lambda c: any(c.startswith(p) for p in prefixes) or c == "UNKNOWN_OP"
    res.judge(events, verdicts, common.load_findings(), rel)
    res.rule = rule
    return res.finish(tier)


# --------------------------------------------------------------------------- C19

def klatt_behaviours(sz, work, res):
    out = []
    for nf, npnt in [(1, 1), (2, 2)]:
        fn = os.path.join(work, "MC_Klatt_%d.cfg" % nf)
        common.write_cfg(fn, dict(NFormants=nf, NPoints=npnt, Depth=sz["kdepth"], Emit=True), invariants=["RoundTrip", "Shape", "EmitInv"])
        r = common.run_tlc("MC_Klatt", fn, work, workers=1, timeout=3600)
        res.add_tlc(r)
        if common.tlc_failed(r):
            sys.stderr.write(r["out"][-3000:])
            raise common.MachineryError("MC_Klatt failed at design level")
        out += [h["hist"] for h in common.parse_json_lines(r["out"])]
    return out


def synth_points(rng, nform, npts, xmin=0):
    vals = K.VALUE_POOL
    pts = {}
    times = [t for t in [0.0, 0.005, 0.25, 1.0 / 3.0, 0.5, 1.1623125, 2.0] if t >= xmin]
    def mk():
        ts = sorted(rng.sample(times, npts))
        return [(t, rng.choice(vals)) for t in ts]
    for name in ["pitch", "voicingAmplitude", "gain", "fricationAmplitude"]:
        if rng.random() < 0.8:
            pts[name] = mk()
    for c, kinds in [("oral_formants", ["formants", "bandwidths"]), ("frication_formants", ["formants", "bandwidths", "frication_formants_amplitudes"]),
                     ("nasal_antiformants", ["oral_formants_amplitudes"])]:
        for k in kinds:
            for i in range(1, nform + 1):
                if rng.random() < 0.7:
                    pts["%s/%s/%s [%d]" % (c, k, k, i)] = mk()
    return pts


def _klatt_job(job):
    items, start, workdir = job
    klattgrid = K.mods()[0]
    out = []
    for kind, payload in items:
        rng = random.Random(payload["seed"])
        if kind == "fixture":
            kg = klattgrid.openKlattgrid(os.path.join(common.REPO, "tests", "files", "bobby.KlattGrid"))
        else:
            nform, npts = payload["nform"], payload["npts"]
            xmin = payload.get("xmin", 0)
            txt = K.synth_klattgrid(nform, synth_points(rng, nform, npts, xmin), 2.5, trailing_newline=payload.get("nl", True), xmin=xmin)
            fn = os.path.join(workdir, "syn-%d-%d.KlattGrid" % (os.getpid(), payload["seed"]))
            with open(fn, "w", encoding="utf-8") as f:
                f.write(txt)
            try:
                kg = klattgrid.openKlattgrid(fn)
            except Exception as ex:  # noqa
                out.append({"id": 0, "fam": "klatt", "op": "klattSaveOpen", "args": {"k": 0, "phase": "first open of a Praat-layout file"},
                            "st": type(ex).__name__, "pre": [], "post": []})
                continue
            finally:
                os.remove(fn)
        hist = payload["hist"]
        fnames = list(K.FUNCS)
        for step in hist:
            op = step["op"]
            if op == "save":
                continue                     # save and open are exercised together by the next 'open'
            if op == "open":
                ev, kg2 = K.saveopen_event(kg, 0, workdir)
                out.append(ev)
                if kg2 is not None:
                    kg = kg2
            elif op == "modifySubtiers":
                f = rng.choice(fnames) if step["f"] == "scale" else rng.choice(["const", "zero", "constf"])
                out.append(K.modify_event(kg, 0, op, rng.choice(["oral_formants", "frication_formants"]) if kind != "tlc0" else step["c"], step["k"], None, f))
            elif op == "modifyValues":
                f = rng.choice(fnames) if step["f"] == "scale" else rng.choice(["const", "zero", "constf"])
                out.append(K.modify_event(kg, 0, op, None, None, step["p"], f))
        # every history ends with a save/open round trip so that what the modifications produced is written and read
        ev, _ = K.saveopen_event(kg, 0, workdir)
        out.append(ev)
    return out


def _point_job(job):
    items, start, workdir = job
    out = []
    for k0, (klass, lo, hi, pts) in enumerate(items):
        k = start + k0                   # the item's own index (jobs may be handed their items one at a time)
        out += K.point_events(klass, lo, hi, pts, 0, workdir, compact=(k % 3 == 1), final_newline=(k % 5 != 2), default_span=(k % 7 == 3))
    return out


def rand_point_objects(n, seed):
    rng = random.Random(seed * 131 + 17)
    pool = [0.0, 1.0, 2.0, 0.02483985988695904, 0.36484374999999997, 104.93004632536243, 1e-05, 1e20, 0.1, 1.0 / 3.0, 5.0, 1234567.0,
            0.30000000000000004, 2.5e-07, 17.0]
    out = []
    for _ in range(n):
        klass = rng.choice(["PointProcess", "PitchTier", "DurationTier"])
        k = rng.choice([0, 0, 1, 2, 3, 5])
        ts = sorted(rng.sample([x for x in pool if x < 1e6], min(k, 10)))
        lo = rng.choice([0.0, 0.0, 0.5]) if not ts else rng.choice([0.0, min(ts)])
        hi = (max(ts) if ts else 1.0) + rng.choice([0.0, 0.5, 1.0])
        if hi <= lo:
            hi = lo + 1.0
        pts = [(t,) for t in ts] if klass == "PointProcess" else [(t, rng.choice(pool)) for t in ts]
        out.append((klass, lo, hi, pts))
    return out


def parallel(fn, items, work, nchunks=None):
    import multiprocessing as mp
    n = nchunks or common.NCPU * 2
    size = max(1, len(items) // n + 1)
    jobs = [(items[i:i + size], i, work) for i in range(0, len(items), size)]
    if not jobs:
        return []
    with mp.get_context("fork").Pool(common.NCPU) as pool:
        res = pool.map(fn, jobs)
    return [e for ch in res for e in ch]


def check_c19(prop, tier):
    res = common.Result(prop)
    work = common.scratch()
    sz = SIZES[tier]
    try:
        K.mods()
        hists = klatt_behaviours(sz, work, res)
        res.exhaustive = True
        rng = random.Random(common.SEED * 3 + 1)
        items = []
        seed = common.SEED * 100000
        # every TLC behaviour on a synthetic KlattGrid (number of formants and points vary), a sample of them on the fixture
        replayed = hists if len(hists) <= 3000 else rng.sample(hists, 3000)
        for h in replayed:
            seed += 1
            items.append(("synth", {"seed": seed, "nform": rng.choice([1, 2, 3, 4, 5, 5, 10, 12]), "npts": rng.randint(0, 3), "hist": h, "nl": rng.random() < 0.8,
                                    "xmin": rng.choice([0, 0, 0, 0.25, 0.125])}))
        for h in rng.sample(hists, min(sz["fixture"], len(hists))):
            seed += 1
            items.append(("fixture", {"seed": seed, "hist": h}))
        events = parallel(common.Guarded(_klatt_job), items, work)
        events += parallel(common.Guarded(_point_job), rand_point_objects(sz["prand"], common.SEED), work)
        events = common.split_broken(res, prop, events)
        for ev in events:
            a = ev["args"]
            if ev["op"] in ("modifySubtiers", "modifyValues"):
                res.distinct.add((ev["op"], a["f"], len(a["targets"]), ev["st"], sum(len(x["pts"]) for x in ev["pre"]) > 0))
            elif ev["op"] == "klattSaveOpen":
                res.distinct.add((ev["op"], ev["st"], len(ev["pre"]), sum(len(x["pts"]) for x in ev["pre"]) % 7))
            else:
                res.distinct.add((ev["op"], ev.get("st"), ev.get("stlong"), ev.get("stshort"), a.get("klass"), a.get("npoints")))
        if events:
            e0 = next((e for e in events if e["op"] == "modifySubtiers"), events[0])
            res.add_sample({"op": e0["op"], "args": {k: v for k, v in e0["args"].items() if k != "fmap"}, "st": e0["st"],
                            "pre_leaves": len(e0.get("pre", [])), "first_leaf": (e0.get("pre") or [None])[0]})
            e1 = next((e for e in events if e["op"] == "pointLongShort"), events[-1])
            res.add_sample({k: e1.get(k) for k in ("op", "args", "pre", "stlong", "stshort", "long", "short")})
        res.notes = dict(tlc_behaviours=len(hists), klatt_histories=len(items))
        res.assumptions = ["the synthetic KlattGrids are written in Praat's layout by harness/klattfam.synth_klattgrid (Praat itself is not available)",
                           "numbers are compared as ranks of bit patterns; f(x) is evaluated by the harness on the concrete floats"]
        return finish(res, prop, tier, events, work, ["C19_"],
                      "every behaviour (save/open/modifySubtiers/modifyValues sequences to depth kdepth) of the TLC KlattMachine replayed on "
                      "synthetic KlattGrids with 1-5 formants and 0-3 points per tier and on the reference KlattGrid, functions from "
                      "{scalings by non-terminating decimals, constants incl. integers and 0, sign change, tiny/huge}; random point objects of the "
                      "three classes saved/opened and encoded in long and short layout; distinct = (op, function, #targets, status, ...) classes")
    finally:
        shutil.rmtree(work, ignore_errors=True)


# --------------------------------------------------------------------------- C20

def series_mods():
    T.praatio()
    from praatio.utilities import my_math
    from praatio import pitch_and_intensity
    return my_math, pitch_and_intensity


def clampi(v, lim=1000000):
    """integers handed to TLC stay far inside 32 bits whatever the code under test returns"""
    return int(max(-lim, min(lim, v)))


def run_series(vec, eid, workdir):
    my_math, pai = series_mods()
    op = vec["op"]
    a = vec["args"]
    sc = vec.get("scale", 1)
    xs = [x / sc if sc != 1 else x for x in vec["xs"]] if "xs" in vec else None
    st, ret = "ok", []
    ev = {"id": eid, "fam": "series", "op": op, "args": a, "scale": sc}
    try:
        with contextlib.redirect_stdout(io.StringIO()):
            if op == "median":
                r = my_math.medianFilter(list(xs), a["window"], a["pad"])
                ret = [int(round(v * sc)) if abs(v * sc - round(v * sc)) < 1e-6 else -99999 for v in r]
            elif op == "znorm":
                r = my_math.znormalizeData(list(xs))
                ret = [clampi(round(v * 1000)) for v in r]
            elif op == "rms":
                ret = clampi(round(my_math.rms(list(xs)) * 100 * sc))
            elif op == "pitch":
                off = float(a.get("offset", 0))
                r = pai.getPitchMeasures([x + off for x in xs] if off else list(xs), "f", "l", a["window"] if a["window"] >= 0 else None, a["filterZero"])
                if off and len(xs) > 0:
                    r = (r[0] - off, r[1] - off, r[2] - off) + tuple(r[3:])
                ret = [clampi(round(v * 100)) for v in r]
            elif op == "jumps":
                pl = [(float(i + 1), float(x)) for i, x in enumerate(xs)]
                errs, _ = pai.detectPitchErrors(pl, a["thr"] / 100.0)
                ret = sorted(int(round(p.time)) for p in errs)
            elif op == "listing":
                fn = os.path.join(workdir, "l-%d-%d.txt" % (os.getpid(), eid))
                vals = vec["values"]
                lines = []
                if a["header"]:
                    lines.append("time,pitch,intensity")
                for row in vec["rows"]:
                    lines.append(",".join("--undefined--" if c == -1 else repr(vals[c]) for c in row))
                with open(fn, "w", encoding="utf-8") as f:
                    f.write("\n".join(lines) + ("" if a.get("nonl") else "\n"))     # the last row need not end with a newline
                try:
                    r = pai.loadTimeSeriesData(fn, a["undef"] if a["subst"] else None)
                finally:
                    os.remove(fn)
                inv = {F.fkey(v): i for i, v in enumerate(vals)}
                ret = [[(-2 if (a["subst"] and F.fkey(c) == F.fkey(a["undef"]) and F.fkey(c) not in inv) else inv.get(F.fkey(c), -5)) for c in row]
                       for row in r]
                # a substituted cell must be the requested value; rows are compared cell by cell
                ret = []
                for row in r:
                    out_row = []
                    for c in row:
                        if F.fkey(c) in inv:
                            out_row.append(inv[F.fkey(c)])
                        elif a["subst"] and F.fkey(c) == F.fkey(a["undef"]):
                            out_row.append(-2)
                        else:
                            out_row.append(-5)
                    ret.append(out_row)
                ev["rows"] = vec["rows"]
            elif op == "rowfilter":
                vals = vec["values"]
                rows = [[vals[c] for c in row] for row in vec["rows"]]
                r = my_math.filterTimeSeriesData(my_math.medianFilter, rows, a["window"], a["index"] - 1, a["pad"])
                inv = {F.fkey(v): i for i, v in enumerate(vals)}
                ret = [[inv.get(F.fkey(c), -5) for c in row] for row in r]
                ev["rows"] = vec["rows"]
            elif op == "speakerz":
                # znormalizeSpeakerData without zero filtering: column a["index"] z-normalised, rows and other columns kept
                rows = [tuple([float(i)] + [float(x) if k + 2 == a["index"] else 7.5 + k for k in range(a["ncol"] - 1)]) for i, x in enumerate(xs)]
                rows = [tuple(float(x) if k + 1 == a["index"] else r[k] for k in range(a["ncol"])) for r, x in zip(rows, xs)]
                r = my_math.znormalizeSpeakerData(rows, a["index"] - 1, False)
                ret = [clampi(round(row[a["index"] - 1] * 1000)) for row in r]
                ev["kept"] = bool(len(r) == len(rows) and all(len(o) == len(n) and all(o[k] == n[k] for k in range(len(o)) if k + 1 != a["index"])
                                                              for o, n in zip(rows, r)))
    except Exception as ex:  # noqa
        st = type(ex).__name__
    if "xs" in vec:
        ev["xs"] = vec["xs"]
    ev["st"] = st
    ev["ret"] = ret
    return ev


def _series_job(job):
    items, start, workdir = job
    return [run_series(v, start + i, workdir) for i, v in enumerate(items)]


def rand_series_vectors(n, seed):
    rng = random.Random(seed * 733 + 29)
    out = []
    for _ in range(n):
        op = rng.choice(["median", "median", "znorm", "rms", "pitch", "pitch", "jumps", "listing", "rowfilter", "speakerz"])
        L = rng.randint(0, 15)
        style = rng.random()
        if style < 0.3:
            xs = [rng.randint(0, 3) for _ in range(L)]                      # many ties
        elif style < 0.5:
            xs = [rng.choice([5, 5, 5, 9]) for _ in range(L)]               # constant runs
        else:
            xs = [rng.randint(-9, 9) for _ in range(L)]
        if op == "median":
            sc = rng.choice([1, 1, 10])
            out.append({"op": op, "xs": xs, "scale": sc, "args": {"window": rng.randint(0, 8), "pad": rng.random() < 0.5}})
        elif op == "znorm":
            if L < 2 or len(set(xs)) < 2:
                continue                                                     # standard deviation undefined
            if rng.random() < 0.25:
                xs = [x + 100000000 for x in xs]                             # a mean that dwarfs the spread (exact in binary64)
            out.append({"op": op, "xs": xs, "args": {"k": 0}})
        elif op == "speakerz":
            if L < 2 or len(set(xs)) < 2:
                continue
            if rng.random() < 0.25:
                xs = [x + 100000000 for x in xs]
            ncol = rng.randint(1, 3)
            out.append({"op": op, "xs": xs, "args": {"ncol": ncol, "index": rng.randint(1, ncol)}})
        elif op == "rms":
            if L == 0:
                continue
            out.append({"op": op, "xs": xs, "args": {"k": 0}})
        elif op == "pitch":
            sc = rng.choice([1, 1, 1, 2, 10, 10])                            # scale 2: halves such as 0.5; scale 10: tenths, not representable in binary
            xs = [abs(x) if rng.random() < 0.8 else 0 for x in xs]
            fz = rng.random() < 0.5
            args = {"window": rng.choice([-1, -1, 0, 3, 5]), "filterZero": fz}
            if not fz and sc == 1 and rng.random() < 0.4:
                args["offset"] = rng.choice([100000000, 4194304, 1000000000])   # a level that dwarfs the spread (sums stay exact in binary64)
            out.append({"op": op, "xs": xs, "scale": sc, "args": args})
        elif op == "jumps":
            xs = [rng.choice([50, 70, 100, 140, 200, 99, 101, 35]) for _ in range(L)]
            out.append({"op": op, "xs": xs, "args": {"thr": rng.choice([70, 50, 100, 35, 99, 1])}})
        else:
            vals = [0.01 * k for k in range(1, 9)] + [60.5, 0.25, 75.0, 200.0, 1.5]
            ncol = rng.randint(2, 3)
            rows = []
            for i in range(rng.randint(1, 8)):
                row = [i % 8] + [rng.randrange(8, len(vals)) for _ in range(ncol - 1)]
                if op == "listing" and rng.random() < 0.3:
                    row[rng.randrange(1, ncol)] = -1
                rows.append(row)
            if op == "listing":
                out.append({"op": op, "rows": rows, "values": vals, "args": {"header": rng.random() < 0.5, "subst": rng.random() < 0.5,
                                                                             "undef": rng.choice([0.0, 0, -1.0, 999.25]), "nonl": rng.random() < 0.3}})
            else:
                out.append({"op": op, "rows": rows, "values": vals, "args": {"window": rng.choice([0, 3, 5]), "index": rng.randint(2, ncol), "pad": rng.random() < 0.5}})
    return out


def check_c20(prop, tier):
    res = common.Result(prop)
    work = common.scratch()
    sz = SIZES[tier]
    try:
        series_mods()
        nsl = common.NCPU
        jobs = []
        for sl in range(nsl):
            fn = os.path.join(work, "MC_Series_%d.cfg" % sl)
            common.write_cfg(fn, dict(MaxLen=sz["sMaxLen"], VMax=sz["sVMax"], Emit=True, Slice=sl, NSlices=nsl), invariants=["NoFail", "EmitInv"])
            jobs.append(fn)
        emitted, fail = [], []
        with ThreadPoolExecutor(max_workers=common.NCPU) as ex:
            for r in ex.map(lambda fn: common.run_tlc("MC_Series", fn, work, workers=1, timeout=7200), jobs):
                res.add_tlc(r)
                if common.tlc_failed(r):
                    fail.append(r["out"][-3000:])
                emitted.extend(common.parse_json_lines(r["out"]))
        if fail:
            sys.stderr.write(fail[0])
            raise common.MachineryError("MC_Series failed at design level")
        res.exhaustive = True
        items = [{"op": "median", "xs": e["xs"], "args": e["args"], "impl": e["ret"]} for e in emitted]
        items += rand_series_vectors(sz["srand"], common.SEED)
        events = parallel(common.Guarded(_series_job), items, work)
        ndrift = sum(1 for v, e in zip(items, events) if "impl" in v and not e.get("broken") and v["impl"] != e["ret"])
        events = common.split_broken(res, prop, events)
        for ev in events:
            a = ev["args"]
            res.distinct.add((ev["op"], ev["st"], json.dumps(a, sort_keys=True)[:50], min(len(ev.get("xs", ev.get("rows", []))), 6),
                              len(set(ev.get("xs", []))) < len(ev.get("xs", []))))
        if events:
            res.add_sample(events[0])
            res.add_sample(events[-1])
        res.notes = dict(enumerated_median_cases=len(emitted), impl_drift=ndrift)
        res.assumptions = ["TLA+ decides the index bookkeeping and the exact integer/rational definitions; floating-point results are scaled and "
                           "rounded by the harness and compared within the tolerances stated in spec/SeriesProp.tla",
                           "z-normalising fewer than two values or a constant series and the rms of an empty list are undefined and not judged"]
        return finish(res, prop, tier, events, work, ["C20_"],
                      "every (integer series up to sMaxLen over 0..sVMax, window 0..8, padding) of the TLC model of _stepFilter replayed through "
                      "the real medianFilter; random series (length 0..15, ties, constant runs, halves) through medianFilter, znormalizeData, rms, "
                      "getPitchMeasures, detectPitchErrors; random listings through loadTimeSeriesData and filterTimeSeriesData; "
                      "distinct = (op, status, arguments, length class, has ties) classes")
    finally:
        shutil.rmtree(work, ignore_errors=True)
