"""./check <Cxx> --replay <path>: re-executes the recorded case on the current /repo tree and lets TLC judge it again."""
import json
import shutil

from . import common


def run(prop, path):
    d = json.load(open(path))
    ev = d["event"]
    fam = ev.get("fam", "tier")
    work = common.scratch()
    try:
        if fam == "tier":
            from . import tier as T
            vec = {"op": ev["op"], "args": ev["args"], "pre": ev["pre"], "arg": ev["arg"]}
            new, _ = T.run_vector(vec, T.EMBS[ev.get("emb", "dy")], T.POOLS[ev.get("pool", "ascii")], ev.get("variant", 0))
            new["id"] = 0
            verdicts, _, _ = common.validate_traces("Trace_Tier", [new], work)
        elif fam == "tg":
            from . import tier as T, tg as G
            vec = {"op": ev["op"], "args": ev["args"], "pre": ev["pre"], "argt": ev["argt"], "argtg": ev["argtg"]}
            new, _ = G.run_vector(vec, T.EMBS[ev.get("emb", "dy")], T.POOLS[ev.get("pool", "ascii")], ev.get("variant", 0))
            new["id"] = 0
            verdicts, _, _ = common.validate_traces("Trace_Tg", [new], work)
            new.setdefault("arg", new.get("argt"))
        else:
            # the replay file holds the complete recorded call (inputs, observed outputs): TLC judges that record again
            mod = {"query": "Trace_Tier", "file": "Trace_File", "audio": "Trace_Audio", "zc": "Trace_Audio", "klatt": "Trace_Klatt",
                   "series": "Trace_SeriesExt" if ev.get("op") == "zwindow" else "Trace_Klatt", "scripts": "Trace_Scripts",
                   "findall": "Trace_FindAll"}.get(fam)
            if mod is None:
                print("unknown event family", fam)
                return 2
            new = dict(ev, id=0)
            verdicts, _, _ = common.validate_traces(mod, [new], work)
            print("(recorded event re-judged; re-execution on the current tree is available for tier and textgrid events)")
            fails = verdicts.get(0, [])
            print("recorded clause:", d.get("clause"))
            print("failing clauses now:", fails)
            if d.get("clause") in fails:
                print("VIOLATION property=%s replay=%s" % (prop, path))
                return 1
            return 0
        fails = verdicts.get(0, [])
        print("recorded clause:", d.get("clause"))
        print("re-executed event:", json.dumps({k: new[k] for k in ("op", "args", "pre", "arg", "st", "ret", "post")}))
        print("failing clauses now:", fails)
        if d.get("clause") in fails:
            print("VIOLATION property=%s replay=%s" % (prop, path))
            return 1
        return 0
    finally:
        shutil.rmtree(work, ignore_errors=True)
