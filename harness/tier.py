"""Tier family: concretization of abstract (integer-grid) vectors, execution on the real praatio
objects, projection of the results back to integers, and generators of abstract vectors."""
import contextlib
import io
import math
import os
import random
import sys
from decimal import Decimal
from fractions import Fraction

from . import common

_praatio = None


def praatio():
    """Imports praatio from the repository working tree (never from a snapshot)."""
    global _praatio
    if _praatio is None:
        sys.dont_write_bytecode = True
        if common.REPO not in sys.path:
            sys.path.insert(0, common.REPO)
        import praatio
        from praatio import textgrid
        from praatio.utilities import errors, constants
        here = os.path.realpath(praatio.__file__)
        if not here.startswith(os.path.realpath(common.REPO) + os.sep):
            raise common.MachineryError("praatio imported from %s, not from %s" % (here, common.REPO))
        _praatio = (textgrid, errors, constants)
    return _praatio


# --------------------------------------------------------------------------- embeddings

class Emb:
    """Scaling of the integer grid: g(k) = float(base + k * step), step and base exact decimals; durations scale without
    the base (gd).  base = 0 for every embedding but 'far' (times near 2000 s on a microsecond grid: neighbouring grid
    times are closer than 1e-9 relative - where "equal within a relative tolerance" and "equal" part ways)."""

    def __init__(self, name, step, base="0"):
        self.name = name
        self.step = Decimal(step)
        self.base = Decimal(base)
        self.fstep = Fraction(self.step)
        self.fbase = Fraction(self.base)
        pow2 = lambda f: (f.denominator & (f.denominator - 1)) == 0
        self.dyadic = pow2(self.fstep) and pow2(self.fbase)

    def g(self, k):
        return float(self.base + self.step * k)

    def gd(self, d):
        return float(self.step * d)

    def inv(self, x):
        """Returns (k, ongrid): the grid index nearest to float x and whether x is within rounding of g(k)."""
        if not isinstance(x, (int, float)) or isinstance(x, bool) or math.isnan(x) or math.isinf(x):
            return -999999, False
        fx = Fraction(x)
        k = round((fx - self.fbase) / self.fstep)
        if abs(k) > 2000000000:
            return -999999, False
        gk = self.g(k)
        tol = 0.0 if self.dyadic else 1e-3 * float(self.step) if self.base != 0 else 1e-9 * max(float(self.step), abs(x), abs(gk))
        return k, abs(x - gk) <= tol


EMBS = {
    "dy": Emb("dy", "0.125"),
    "dec": Emb("dec", "0.1"),
    "c7": Emb("c7", "0.07"),
    "big": Emb("big", "1234.7"),
    "tiny": Emb("tiny", "0.003"),
    "ms": Emb("ms", "0.001"),
    "cs": Emb("cs", "0.01"),
    "far": Emb("far", "0.000001", base="2000"),      # only for operations that have no absolute origin
    "neg": Emb("neg", "0.125", base="-3"),           # a time axis that starts below zero (dyadic: exact); same restriction
}

POOLS = {
    "ascii": {"a": "a", "b": "b", "x": "x", "zz": "zz"},
    "uni": {"a": "été", "b": "日本", "x": "x y", "zz": "\U0001F600"},
    "quote": {"a": 'say "a"', "b": "b=1", "x": "x\ny", "zz": "z z"},
}


def lab_out(sym_label, pool):
    """abstract label (symbols joined by demarcators) -> concrete label"""
    out = []
    tok = ""
    for ch in sym_label:
        if ch in "-,()":
            if tok:
                out.append(pool.get(tok, tok))
                tok = ""
            out.append(ch)
        else:
            tok += ch
    if tok:
        out.append(pool.get(tok, tok))
    return "".join(out)


def lab_in(label, pool):
    """concrete label -> abstract label; an untrimmed label is flagged so that it never equals an expected one"""
    if not isinstance(label, str):
        return "?nonstring"
    s = label
    for sym, conc in sorted(pool.items(), key=lambda kv: -len(kv[1])):
        s = s.replace(conc, "\x00" + sym + "\x01")
    s = s.replace("\x00", "").replace("\x01", "")
    if label != label.strip():
        return "?untrimmed:" + s
    return s


# --------------------------------------------------------------------------- concretize / project

NONE = {"kind": "none"}


def mk_tier(t, emb, pool):
    textgrid, _, _ = praatio()
    if t["kind"] == "I":
        ents = [(emb.g(x["s"]), emb.g(x["e"]), lab_out(x["l"], pool)) for x in t["ents"]]
        return textgrid.IntervalTier(t["name"], ents, emb.g(t["lo"]), emb.g(t["hi"]))
    ents = [(emb.g(x["t"]), lab_out(x["l"], pool)) for x in t["ents"]]
    return textgrid.PointTier(t["name"], ents, emb.g(t["lo"]), emb.g(t["hi"]))


def mk_tier_primed(t, emb, pool):
    """The same tier, reached through a short history instead of the constructor alone: built with one extra entry in a free
    slot, every read-only view looked at once (whatever an implementation may memoise is now filled), then the extra entry
    deleted in place.  A well-formed tier is a well-formed tier however it came about."""
    if t["kind"] == "I":
        edges = [t["lo"]] + [v for x in t["ents"] for v in (x["s"], x["e"])] + [t["hi"]]
        slot = next(((edges[i], edges[i + 1]) for i in range(0, len(edges), 2) if edges[i + 1] - edges[i] >= 1), None)
        extra = None if slot is None else {"s": slot[0], "e": slot[1], "l": "zz"}
    else:
        used = set(x["t"] for x in t["ents"])
        free = [k for k in range(t["lo"], t["hi"] + 1) if k not in used]
        extra = {"t": free[len(free) // 2], "l": "zz"} if free else None
    if extra is None:
        tier = mk_tier(t, emb, pool)
    else:
        key = (lambda x: (x["s"], x["e"])) if t["kind"] == "I" else (lambda x: x["t"])
        tier = mk_tier(dict(t, ents=sorted(t["ents"] + [extra], key=key)), emb, pool)
    with contextlib.redirect_stdout(io.StringIO()):
        _ = tier.timestamps, tier.entries, tier.find("zz"), tier.validate("silence"), tier == tier, tier.minTimestamp, tier.maxTimestamp
        if t["kind"] == "I" and len(tier.entries):
            _ = tier.getNonEntries()
        if extra is not None:
            lab = lab_out("zz", pool)
            victim = [e for e in tier.entries if e[-1] == lab][0]
            tier.deleteEntry(victim)
    return tier


class Proj:
    def __init__(self, emb, pool):
        self.emb = emb
        self.pool = pool
        self.offgrid = 0

    def t(self, x):
        k, ok = self.emb.inv(x)
        if not ok:
            self.offgrid += 1
        return k

    def tier(self, tier):
        textgrid, _, _ = praatio()
        if tier is None:
            return NONE
        if isinstance(tier, textgrid.IntervalTier):
            ents = [{"s": self.t(e[0]), "e": self.t(e[1]), "l": lab_in(e[2], self.pool)} for e in tier.entries]
            kind = "I"
        elif isinstance(tier, textgrid.PointTier):
            ents = [{"t": self.t(e[0]), "l": lab_in(e[1], self.pool)} for e in tier.entries]
            kind = "P"
        else:
            return NONE
        return {"kind": kind, "name": tier.name, "lo": self.t(tier.minTimestamp), "hi": self.t(tier.maxTimestamp),
                "ents": ents}


def raw_wf(tier):
    """Well-formedness on the actual floats (sorted, start < end, disjoint, inside the span, labels trimmed)."""
    textgrid, _, _ = praatio()
    if tier is None:
        return True
    try:
        lo, hi = tier.minTimestamp, tier.maxTimestamp
        if isinstance(tier, textgrid.IntervalTier):
            prev = None
            for s, e, l in tier.entries:
                if not (s < e) or s < lo or e > hi or l != l.strip():
                    return False
                if prev is not None and prev > s:
                    return False
                prev = e
        else:
            prev = None
            for t, l in tier.entries:
                if t < lo or t > hi or l != l.strip():
                    return False
                if prev is not None and prev > t:
                    return False
                prev = t
        return True
    except Exception:
        return False


def validate_agrees(tier):
    if tier is None:
        return True
    try:
        v = tier.validate("silence")
    except Exception:
        return False
    textgrid, _, _ = praatio()
    # validate() does not look at label whitespace; compare on the part it covers
    return bool(v) == raw_wf_notrim(tier)


def raw_wf_notrim(tier):
    textgrid, _, _ = praatio()
    lo, hi = tier.minTimestamp, tier.maxTimestamp
    if isinstance(tier, textgrid.IntervalTier):
        prev = None
        for s, e, l in tier.entries:
            if not (s < e) or s < lo or e > hi:
                return False
            if prev is not None and prev > s:
                return False
            prev = e
    else:
        prev = None
        for t, l in tier.entries:
            if t < lo or t > hi:
                return False
            if prev is not None and prev > t:
                return False
            prev = t
    return True


def mk_entry(x, kind, emb, pool):
    _, _, constants = praatio()
    if kind == "I":
        return constants.Interval(emb.g(x["s"]), emb.g(x["e"]), lab_out(x["l"], pool))
    return constants.Point(emb.g(x["t"]), lab_out(x["l"], pool))


def call_op(op, args, recv, arg, emb, pool):
    """Performs the abstract call on real objects; returns the returned object (tier or None)."""
    g = emb.g
    if op == "crop":
        return recv.crop(g(args["a"]), g(args["b"]), args["mode"], args["rebase"])
    if op == "eraseRegion":
        return recv.eraseRegion(g(args["a"]), g(args["b"]), args["mode"], args["shrink"])
    if op == "insertSpace":
        return recv.insertSpace(g(args["s"]), emb.gd(args["d"]), args["mode"])
    if op == "spaceErase":
        s, d = g(args["s"]), emb.gd(args["d"])
        return recv.insertSpace(s, d, args["mode"]).eraseRegion(s, s + d, "truncate", True)
    if op == "editTimestamps":
        return recv.editTimestamps(emb.gd(args["o"]), args["mode"])
    if op == "editRoundTrip":
        return recv.editTimestamps(emb.gd(args["o"]), "silence").editTimestamps(-emb.gd(args["o"]), "silence")
    if op == "insertEntry":
        kind = "I" if "s" in args["x"] else "P"
        entry = mk_entry(args["x"], kind, emb, pool)
        if args.get("padlabel"):
            # the caller hands over a label with surrounding white space: it must be stored trimmed (C05)
            entry = type(entry)(*(list(entry[:-1]) + [" \t" + entry[-1] + "  "]))
        recv.insertEntry(entry, args["cmode"], args["rmode"])
        return None
    if op == "deleteEntry":
        kind = "I" if "s" in args["x"] else "P"
        recv.deleteEntry(mk_entry(args["x"], kind, emb, pool))
        return None
    if op == "appendTier":
        return recv.appendTier(arg)
    if op == "union":
        return recv.union(arg)
    if op == "difference":
        return recv.difference(arg)
    if op == "intersection":
        return recv.intersection(arg)
    if op == "mergeLabels":
        return recv.mergeLabels(arg)
    if op == "dejitter":
        return recv.dejitter(arg, emb.gd(args["D"]))
    if op == "morph":
        f = args["filter"]
        if f == "all":
            fn = None
        elif f == "none":
            fn = lambda l: False
        else:
            cl = lab_out(f, pool)
            fn = lambda l: l == cl
        return recv.morph(arg, fn)
    if op == "new":
        return recv.new()
    if op == "construct":
        textgrid = praatio()[0]
        padl = (lambda l: "  " + l + " \t") if args["pad"] else (lambda l: l)
        if args["kind"] == "I":
            raw = [(g(x["s"]), g(x["e"]), padl(lab_out(x["l"], pool))) for x in args["raw"]]
            return textgrid.IntervalTier("t", raw, g(args["lo"]), g(args["hi"]))
        raw = [(g(x["t"]), padl(lab_out(x["l"], pool))) for x in args["raw"]]
        return textgrid.PointTier("t", raw, g(args["lo"]), g(args["hi"]))
    raise common.MachineryError("unknown op " + op)


def run_vector(vec, emb, pool, eid, recv=None, arg=None):
    """vec: abstract {op, args, pre, arg}.  Executes on real objects (built from vec unless given) and
    returns the event as the trace specification reads it."""
    textgrid, errors, _ = praatio()
    pj = Proj(emb, pool)
    # one call in four starts from tiers that were reached through a history (see mk_tier_primed)
    build = mk_tier_primed if eid % 4 == 1 and vec["op"] != "construct" else mk_tier
    fresh = recv is None and arg is None
    if recv is None:
        recv = build(vec["pre"], emb, pool)
    if arg is None and vec["arg"]["kind"] != "none":
        arg = build(vec["arg"], emb, pool)
    pre = pj.tier(recv)
    argpre = pj.tier(arg) if arg is not None else NONE
    cap = common.Capture()
    st, pe, ret = "ok", False, None
    try:
        with cap:
            ret = call_op(vec["op"], vec["args"], recv, arg, emb, pool)
    except Exception as ex:  # noqa
        st = type(ex).__name__
        pe = isinstance(ex, errors.PraatioException)
        ret = None
    rettier = ret if isinstance(ret, (textgrid.IntervalTier, textgrid.PointTier)) else None
    retproj = pj.tier(rettier)
    postproj = pj.tier(recv)
    argpostproj = pj.tier(arg) if arg is not None else NONE
    # does the returned tier share anything with the receiver or the argument?  identity, and - for freshly built operands,
    # one call in four - behaviour: an entry deleted from (or added to) the result must not show in the operands
    alias = rettier is not None and (rettier is recv or rettier is arg)
    if rettier is not None and not alias and fresh and eid % 4 == 2:
        try:
            with contextlib.redirect_stdout(io.StringIO()):
                if len(rettier.entries):
                    rettier.deleteEntry(rettier.entries[0])
                else:
                    far = emb.g(retproj["hi"] + 7)
                    rettier.insertEntry((far, emb.g(retproj["hi"] + 8), "zz") if retproj["kind"] == "I" else (far, "zz"), "error", "silence")
            alias = pj.tier(recv) != postproj or (arg is not None and pj.tier(arg) != argpostproj)
        except Exception:  # noqa - the probe itself is not under test
            pass
    ev = {
        "id": eid, "fam": "tier", "op": vec["op"], "args": vec["args"], "pre": pre, "arg": argpre,
        "st": st, "pe": pe, "ret": retproj, "post": postproj,
        "argpost": argpostproj, "alias": bool(alias),
        "out": cap.any, "arith": True, "exactfp": emb.dyadic,
        "rawwf": raw_wf(rettier) and raw_wf(recv),
        "validok": validate_agrees(rettier) and validate_agrees(recv),
        "offgrid": 0, "emb": emb.name, "pool": next((k for k, v in POOLS.items() if v is pool), "ascii"),
        "variant": eid % 4,          # 1: operands built through a history (mk_tier_primed), 2: result probed for aliasing
    }
    ev["offgrid"] = pj.offgrid
    return ev, ret


# --------------------------------------------------------------------------- parallel replay

def _replay_chunk(job):
    vecs, embname, poolname, start = job
    emb, pool = EMBS[embname], POOLS[poolname]
    out = []
    for i, v in enumerate(vecs):
        try:
            ev, _ = run_vector(v, emb, pool, start + i)
        except common.MachineryError:
            raise
        except Exception as ex:  # noqa - building the inputs or reading back the results failed: the code under test misbehaves
            ev = broken_event(start + i, v, ex)
        if "features" in v:
            ev["features"] = v["features"]
        out.append(ev)
    return out


def broken_event(eid, vec, ex):
    import traceback
    return {"id": eid, "broken": True, "op": vec.get("op"), "args": vec.get("args"), "pre": vec.get("pre"),
            "error": "%s: %s" % (type(ex).__name__, ex), "where": traceback.format_exc().splitlines()[-3:]}


def split_broken(events):
    """events the harness could not even set up or read back (never happens on a tree where the API behaves)"""
    good = [e for e in events if not e.get("broken")]
    bad = [e for e in events if e.get("broken")]
    return good, bad


def replay(vectors, plans, start_id=0):
    """plans: list of (embname, poolname).  Every vector is executed under every plan.
    Returns the list of events (ids consecutive from start_id)."""
    import multiprocessing as mp
    jobs = []
    nid = start_id
    size = max(200, min(5000, len(vectors) // (2 * common.NCPU) + 1))
    for embname, poolname in plans:
        for i in range(0, len(vectors), size):
            ch = vectors[i:i + size]
            jobs.append((ch, embname, poolname, nid))
            nid += len(ch)
    if not jobs:
        return []
    common.settle_memory()
    ctx = mp.get_context("fork")
    with ctx.Pool(common.NCPU) as pool:
        res = pool.map(_replay_chunk, jobs)
    return [e for ch in res for e in ch]


# --------------------------------------------------------------------------- random abstract vectors (fine grid)

def rand_tier(rng, kind, maxn, hi, labels=("a", "b"), name="t"):
    n = rng.randint(0, maxn)
    if kind == "I":
        style = rng.random()
        pts = sorted(rng.sample(range(0, hi + 1), min(2 * n, hi + 1) // 2 * 2))
        ents = []
        i = 0
        while i + 1 < len(pts):
            ents.append({"s": pts[i], "e": pts[i + 1], "l": rng.choice(labels)})
            # touching neighbours are frequent on purpose
            if style < 0.5 and i + 2 < len(pts):
                i += 1
            else:
                i += 2
        lo = 0 if rng.random() < 0.7 or not ents else rng.randint(0, ents[0]["s"])
        hi2 = hi if rng.random() < 0.7 or not ents else rng.randint(ents[-1]["e"], hi)
        if lo >= hi2:
            lo, hi2 = 0, hi
        return {"kind": "I", "name": name, "lo": lo, "hi": hi2, "ents": ents}
    ts = sorted(rng.sample(range(0, hi + 1), min(n, hi + 1)))
    ents = [{"t": t, "l": rng.choice(labels)} for t in ts]
    lo = 0 if rng.random() < 0.7 or not ents else rng.randint(0, ents[0]["t"])
    hi2 = hi if rng.random() < 0.7 or not ents else rng.randint(ents[-1]["t"], hi)
    if lo >= hi2:
        lo, hi2 = 0, hi
    return {"kind": "P", "name": name, "lo": lo, "hi": hi2, "ents": ents}


def interesting_times(rng, tier, hi, k=1):
    """times biased to boundaries of the tier"""
    cand = [tier["lo"], tier["hi"]]
    for x in tier["ents"]:
        cand += [x["s"], x["e"]] if "s" in x else [x["t"]]
    out = []
    for _ in range(k):
        r = rng.random()
        if r < 0.6 and cand:
            out.append(rng.choice(cand))
        elif r < 0.8 and cand:
            out.append(max(0, rng.choice(cand) + rng.choice([-1, 1])))
        else:
            out.append(rng.randint(0, hi))
    return out
