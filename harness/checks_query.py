"""C15: queries and derived views."""
import contextlib
import io
import json
import os
import random
import shutil
import sys
from concurrent.futures import ThreadPoolExecutor

from . import common
from . import tier as T

SIZES = {"quick": dict(N=4, K=2, rand=6000), "thorough": dict(N=5, K=3, rand=150000)}
PATS = [{"kind": k, "a": a, "b": b} for k in ("lit", "start", "end") for a in (["a"], ["A", "b"], ["b"], []) for b in ([],)] + \
       [{"kind": "alt", "a": ["a"], "b": ["c"]}, {"kind": "alt", "a": ["B"], "b": ["a", "a"]}, {"kind": "dot", "a": [], "b": []}]


def regex_of(p):
    a, b = "".join(p["a"]), "".join(p["b"])
    return {"lit": a, "start": "^" + a, "end": a + "$", "alt": a + "|" + b, "dot": "."}[p["kind"]]


def run_query(vec, emb, eid):
    textgrid, errors, constants = T.praatio()
    from praatio.utilities import utils
    pool = T.POOLS["ascii"]
    pj = T.Proj(emb, pool)
    op, a = vec["op"], vec["args"]
    g = emb.g
    st, ret = "ok", []
    ev = {"id": eid, "fam": "query", "op": op, "args": a, "emb": emb.name}
    tier = None
    if "pre" in vec:
        if op == "find":
            labs = vec["labs"]
            kind = vec["pre"]["kind"]
            if kind == "I":
                tier = textgrid.IntervalTier("t", [(g(x["s"]), g(x["e"]), "".join(l)) for x, l in zip(vec["pre"]["ents"], labs)], g(vec["pre"]["lo"]), g(vec["pre"]["hi"]))
            else:
                tier = textgrid.PointTier("t", [(g(x["t"]), "".join(l)) for x, l in zip(vec["pre"]["ents"], labs)], g(vec["pre"]["lo"]), g(vec["pre"]["hi"]))
            ev["labs"] = labs
        else:
            # every third query is asked of a tier reached through a history (views read once, then an entry deleted in place)
            tier = (T.mk_tier_primed if eid % 3 == 1 else T.mk_tier)(vec["pre"], emb, pool)
        ev["pre"] = pj.tier(tier) if op != "find" else vec["pre"]
    try:
        with contextlib.redirect_stdout(io.StringIO()):
            if op == "find":
                q = "".join(a["q"])
                if a["mode"] == "eq":
                    ret = tier.find(q)
                elif a["mode"] == "sub":
                    ret = tier.find(q, substrMatchFlag=True)
                else:
                    ret = tier.find(regex_of(a["pat"]), usingRE=True)
                ret = [int(i) for i in ret]
            elif op == "nonEntries":
                ret = [{"s": pj.t(x[0]), "e": pj.t(x[1])} for x in tier.getNonEntries()]
            elif op == "timestamps":
                ret = [pj.t(x) for x in tier.timestamps]
            elif op == "valuesInIntervals":
                data = [(g(d["t"]), d["id"]) for d in a["data"]]
                r = tier.getValuesInIntervals(data)
                ret = [[row[1] for row in rows] for _, rows in r]
            elif op == "valuesAtPoints":
                data = [(g(d["t"]), d["id"]) for d in a["data"]]
                r = tier.getValuesAtPoints(data, fuzzyMatching=a["fuzzy"])
                ret = [(row[1] if len(row) > 1 else -1) for row in r]
            elif op == "overlapCheck":
                iv = lambda x: constants.Interval(g(x["s"]), g(x["e"]), "")
                ret = bool(utils.intervalOverlapCheck(iv(a["a"]), iv(a["b"]), percentThreshold=a["pct"] / 100.0, timeThreshold=g(a["tthr"]),
                                                      boundaryInclusive=a["inclusive"]))
            elif op == "invert":
                r = utils.invertIntervalList([(g(x["s"]), g(x["e"])) for x in a["ivs"]], g(a["lo"]), g(a["hi"]))
                ret = [{"s": pj.t(x[0]), "e": pj.t(x[1])} for x in r]
            elif op == "eq":
                ret = run_eq(vec, emb, pool)
            elif op == "validate":
                ret = run_validate(vec, emb, pool)
    except Exception as ex:  # noqa
        st = type(ex).__name__
    ev["st"] = st
    ev["ret"] = ret
    ev["offgrid"] = pj.offgrid
    return ev


def run_eq(vec, emb, pool):
    """a == a, a == b, b == a, b == b where b is a with one field perturbed"""
    textgrid = T.praatio()[0]
    what = vec["args"]["what"]
    level = vec["args"]["level"]
    import copy
    base = vec["pre"]
    other = copy.deepcopy(base)
    g = emb.g
    if what == "name":
        other["name"] = base["name"] + "x"
    elif what == "label" and other["ents"]:
        other["ents"][0]["l"] = "zz"
    elif what == "count" and other["ents"]:
        other["ents"] = other["ents"][:-1]
    elif what == "timestamp" and other["ents"]:
        k = "e" if other["kind"] == "I" else "t"
        x = other["ents"][-1]
        x[k] = x[k] + 1 if x[k] + 1 <= other["hi"] else x[k] - 1 if other["kind"] == "P" else x[k]
        if x == base["ents"][-1]:
            other["hi"] = other["hi"] + 1
            x[k] = x[k] + 1
    elif what == "span":
        other["hi"] = base["hi"] + 1
    elif what == "type" and not base["ents"]:
        # an empty tier of the other type, everything else equal
        other = dict(base, kind="P" if base["kind"] == "I" else "I")
    elif what == "type":
        if base["kind"] == "I":
            other = {"kind": "P", "name": base["name"], "lo": base["lo"], "hi": base["hi"], "ents": [{"t": x["s"], "l": x["l"]} for x in base["ents"]]}
        else:
            other = {"kind": "I", "name": base["name"], "lo": base["lo"], "hi": base["hi"] + 1,
                     "ents": [{"s": x["t"], "e": x["t"] + 1, "l": x["l"]} for x in base["ents"][:1]]}
    a = T.mk_tier(base, emb, pool)
    b = T.mk_tier(other, emb, pool)
    if level == "tg":
        ta = textgrid.Textgrid(a.minTimestamp, a.maxTimestamp)
        ta.addTier(a, reportingMode="silence")
        tb = textgrid.Textgrid(a.minTimestamp, a.maxTimestamp)
        tb.addTier(b, reportingMode="silence")
        a, b = ta, tb
    return [bool(a == a), bool(a == b), bool(b == a), bool(b == b)]


def run_validate(vec, emb, pool):
    textgrid, _, constants = T.praatio()
    what = vec["args"]["what"]
    level = vec["args"]["level"]
    t = T.mk_tier(vec["pre"], emb, pool)
    g = emb.g
    tg = textgrid.Textgrid(t.minTimestamp, t.maxTimestamp)
    # a multi-tier textgrid: the tier that gets corrupted is first, in the middle or last
    extra = vec["args"].get("extra", 0)
    pos = vec["args"].get("pos", 0)
    names = ["x%d" % i for i in range(extra)]
    for i in range(extra + 1):
        if i == pos:
            tg.addTier(t, reportingMode="silence")
        else:
            tg.addTier(textgrid.IntervalTier(names.pop(), [], t.minTimestamp, t.maxTimestamp), reportingMode="silence")
    # corruptions are injected through the attributes a user can assign
    if what == "span_mismatch":
        tg.maxTimestamp = t.maxTimestamp + g(1)
    elif what == "out_of_span":
        t.maxTimestamp = (t.entries[-1][-2] - g(1)) if len(t.entries) else t.maxTimestamp
        tg.maxTimestamp = t.maxTimestamp
        for o in tg.tiers:
            o.maxTimestamp = t.maxTimestamp
    elif what == "below_span":
        t.minTimestamp = t.entries[0][0] + g(1)
        tg.minTimestamp = t.minTimestamp
        for o in tg.tiers:
            o.minTimestamp = t.minTimestamp
    elif what == "out_of_order":
        t._entries = list(t._entries[::-1])
    obj = tg if level == "tg" else t
    return bool(obj.validate("silence"))


def rand_query_vectors(n, seed):
    rng = random.Random(seed * 389 + 41)
    out = []
    HI = 40
    letters = ["a", "b", "c", "A", "B"]
    for _ in range(n):
        op = rng.choice(["find", "find", "nonEntries", "timestamps", "valuesInIntervals", "valuesAtPoints", "overlapCheck", "invert", "eq", "validate"])
        kind = rng.choice(["I", "P"])
        pre = T.rand_tier(rng, kind, 5, HI)
        if op == "find":
            labs = [[rng.choice(letters) for _ in range(rng.randint(0, 3))] for _ in pre["ents"]]
            mode = rng.choice(["eq", "sub", "re"])
            q = [rng.choice(letters) for _ in range(rng.randint(0, 2))]
            if labs and rng.random() < 0.4:
                q = list(rng.choice(labs))
            out.append({"op": op, "pre": pre, "labs": labs, "args": {"mode": mode, "q": q, "pat": rng.choice(PATS)}})
        elif op == "nonEntries":
            pre = T.rand_tier(rng, "I", 5, HI)
            if not pre["ents"]:
                continue
            out.append({"op": op, "pre": pre, "args": {"k": 0}})
        elif op == "timestamps":
            out.append({"op": op, "pre": pre, "args": {"k": 0}})
        elif op in ("valuesInIntervals", "valuesAtPoints"):
            pre = T.rand_tier(rng, "I" if op == "valuesInIntervals" else "P", 4, HI)
            cand = [x.get("s", x.get("t")) for x in pre["ents"]] + [x.get("e", x.get("t")) for x in pre["ents"]]
            m = rng.randint(0 if op == "valuesInIntervals" else 1, 8)
            ts = [rng.choice(cand) if cand and rng.random() < 0.4 else rng.randint(0, HI) for _ in range(m)]
            if op == "valuesAtPoints" or rng.random() < 0.5:
                ts = sorted(ts)
            data = [{"t": t, "id": i + 1} for i, t in enumerate(ts)]
            args = {"data": data}
            if op == "valuesAtPoints":
                args["fuzzy"] = rng.random() < 0.5
            out.append({"op": op, "pre": pre, "args": args})
        elif op == "overlapCheck":
            p = sorted(rng.sample(range(0, 12), 2))
            q = sorted(rng.sample(range(0, 12), 2))
            # thresholds one at a time, percentages with exact binary fractions (ties at exactly the threshold are exact on the dyadic grid)
            r = rng.random()
            pct, tthr = (rng.choice([25, 50, 75]), 0) if r < 0.3 else (0, rng.randint(1, 4)) if r < 0.6 else (0, 0)
            out.append({"op": op, "args": {"a": {"s": p[0], "e": p[1]}, "b": {"s": q[0], "e": q[1]}, "inclusive": rng.random() < 0.5,
                                           "pct": pct, "tthr": tthr}})
        elif op == "invert":
            pts = sorted(rng.sample(range(2, HI - 2), 2 * rng.randint(0, 3)))
            ivs, i = [], 0
            while i + 1 < len(pts):
                ivs.append({"s": pts[i], "e": pts[i + 1]})
                i += 1 if rng.random() < 0.3 else 2
            lo = rng.choice([0, ivs[0]["s"] if ivs else 0])
            hi = rng.choice([HI, ivs[-1]["e"] if ivs else HI])
            out.append({"op": op, "args": {"ivs": ivs, "lo": lo, "hi": hi}})
        elif op == "eq":
            what = rng.choice(["none", "name", "label", "count", "timestamp", "span", "type"])
            if what in ("label", "count", "timestamp") and not pre["ents"]:
                continue
            if what == "type" and rng.random() < 0.4:
                pre["ents"] = []
            out.append({"op": op, "pre": pre, "args": {"what": what, "level": rng.choice(["tier", "tg"])}})
        else:
            what = rng.choice(["none", "none", "span_mismatch", "out_of_span", "below_span", "out_of_order"])
            level = rng.choice(["tier", "tg"])
            if what in ("out_of_span", "below_span") and not pre["ents"]:
                continue
            if what == "out_of_order" and (len(pre["ents"]) < 2 or (kind == "P" and len(set(x["t"] for x in pre["ents"])) < 2)):
                continue
            if what == "span_mismatch" and level == "tier":
                continue
            pre["lo"] = 0
            extra = rng.randint(0, 2) if level == "tg" else 0
            out.append({"op": op, "pre": pre, "args": {"what": what, "level": level, "extra": extra, "pos": rng.randint(0, extra)}})
    return out


def _job(job):
    items, start, workdir = job
    return [run_query(v, T.EMBS[e], start + i) for i, (v, e) in enumerate(items)]


def check_c15(prop, tier):
    res = common.Result(prop)
    work = common.scratch()
    sz = SIZES[tier]
    try:
        T.praatio()
        nsl = common.NCPU
        jobs = []
        for sl in range(nsl):
            fn = os.path.join(work, "MC_Query_%d.cfg" % sl)
            common.write_cfg(fn, dict(N=sz["N"], K=sz["K"], Emit=True, Slice=sl, NSlices=nsl), invariants=["NoFail", "EmitInv"])
            jobs.append(fn)
        emitted, fail = [], []
        with ThreadPoolExecutor(max_workers=common.NCPU) as ex:
            for r in ex.map(lambda fn: common.run_tlc("MC_Query", fn, work, workers=1, timeout=7200), jobs):
                res.add_tlc(r)
                if common.tlc_failed(r):
                    fail.append(r["out"][-3000:])
                emitted.extend(common.parse_json_lines(r["out"]))
        if fail:
            sys.stderr.write(fail[0])
            raise common.MachineryError("MC_Query failed at design level")
        res.exhaustive = True
        items = [({"op": e["op"], "args": e["args"], "pre": e["pre"]}, emb) for emb in ("dy", "dec") for e in emitted]
        rv = rand_query_vectors(sz["rand"], common.SEED)
        # (overlap thresholds are compared with computed differences and quotients: ties are only exact on the dyadic grid)
        thr = lambda v: v["op"] == "overlapCheck" and (v["args"]["pct"] or v["args"]["tthr"])
        items += [(v, "ms" if (i % 2 and not thr(v)) else "dy") for i, v in enumerate(rv)]
        import multiprocessing as mp
        size = max(1, len(items) // (2 * common.NCPU) + 1)
        chunks = [(items[i:i + size], i, work) for i in range(0, len(items), size)]
        with mp.get_context("fork").Pool(common.NCPU) as pool:
            events = [e for ch in pool.map(common.Guarded(_job), chunks) for e in ch]
        events = common.split_broken(res, prop, events)
        for i, e in enumerate(events):
            e["id"] = i
        for ev in events:
            a = ev["args"]
            res.distinct.add((ev["op"], ev["st"], a.get("mode"), a.get("what"), a.get("level"), a.get("fuzzy"), a.get("inclusive"),
                              (a.get("pat") or {}).get("kind"), len((ev.get("pre") or {}).get("ents", [])), json.dumps(ev["ret"])[:12]))
        if events:
            res.add_sample(events[0])
            res.add_sample(events[-1])
        verdicts, nval, cmd = common.validate_traces("Trace_Tier", events, work)
        res.cmds.append(cmd)
        res.traces += nval
        res.evaluations += len(events)
        res.judge(events, verdicts, common.load_findings(), lambda c: c.startswith("C15_") or c in ("UNKNOWN_OP", "times_off_grid"))
        res.notes = dict(enumerated=len(emitted), random=len(rv))
        res.assumptions = ["regular expressions are drawn from the closed family {lit, ^lit, lit$, a|b, .} over a two-case three-letter alphabet whose "
                           "case-insensitive semantics is defined in spec/QueryProp.tla",
                           "equality is exercised with perturbations of at least one grid unit; sub-noise perturbations are not constrained"]
        res.rule = ("every query of the TLC query universe (all tiers on the grid x small sample series) and random tiers/queries: find (equality, "
                    "substring, regex), getNonEntries, timestamps, getValuesInIntervals, getValuesAtPoints (exact/fuzzy), intervalOverlapCheck, "
                    "invertIntervalList, tier/textgrid equality under single-field perturbations, validate() under injected corruptions; "
                    "distinct = (op, status, mode/perturbation, size, result prefix) classes")
        return res.finish(tier)
    finally:
        shutil.rmtree(work, ignore_errors=True)
