"""pytest plugin (loaded with -p harness.recorder_plugin, only when PRAATIO_VERIF_TRACE is set): wraps the public tier and
Textgrid operations of praatio, so that every call any repository test or example makes is recorded with snapshots of the
receiver and the tier arguments before and after the call (also on the exception path).  Nothing in /repo is modified."""
import functools
import json
import os

_OUT = os.environ.get("PRAATIO_VERIF_TRACE")
_events = []
_depth = [0]
LIMIT = 60000

TIER_COPY_OPS = ["crop", "eraseRegion", "insertSpace", "editTimestamps", "union", "difference", "intersection", "mergeLabels",
                 "morph", "dejitter", "appendTier", "new", "find", "getValuesInIntervals", "getNonEntries", "getValuesAtPoints", "validate"]
TIER_MUTATORS = ["insertEntry", "deleteEntry"]
TG_COPY_OPS = ["crop", "eraseRegion", "insertSpace", "editTimestamps", "appendTextgrid", "mergeTiers", "new", "save", "validate"]
TG_MUTATORS = ["addTier", "removeTier", "renameTier", "replaceTier"]


def snap_tier(t):
    try:
        return {"kind": "I" if t.tierType == "IntervalTier" else "P", "name": t.name, "lo": t.minTimestamp, "hi": t.maxTimestamp,
                "ents": [list(e) for e in t.entries]}
    except Exception:
        return None


def snap_tg(tg):
    try:
        return {"lo": tg.minTimestamp, "hi": tg.maxTimestamp, "tiers": [snap_tier(t) for t in tg.tiers]}
    except Exception:
        return None


def _wrap(cls, name, kind, mut, snap):
    orig = cls.__dict__.get(name)
    if orig is None or not callable(orig):
        return
    from praatio.data_classes import textgrid_tier, textgrid

    @functools.wraps(orig)
    def wrapper(self, *args, **kw):
        if len(_events) >= LIMIT:
            return orig(self, *args, **kw)
        pre = snap(self)
        targs = [a for a in list(args) + list(kw.values()) if isinstance(a, (textgrid_tier.TextgridTier, textgrid.Textgrid))]
        apre = [snap_tier(a) if isinstance(a, textgrid_tier.TextgridTier) else snap_tg(a) for a in targs]
        _depth[0] += 1
        st, pe, ret = "ok", False, None
        try:
            ret = orig(self, *args, **kw)
            return ret
        except BaseException as ex:
            st = type(ex).__name__
            from praatio.utilities import errors
            pe = isinstance(ex, errors.PraatioException)
            raise
        finally:
            _depth[0] -= 1
            post = snap(self)
            apost = [snap_tier(a) if isinstance(a, textgrid_tier.TextgridTier) else snap_tg(a) for a in targs]
            rsnap = None
            if isinstance(ret, textgrid_tier.TextgridTier):
                rsnap = snap_tier(ret)
            elif isinstance(ret, textgrid.Textgrid):
                rsnap = snap_tg(ret)
            _events.append({"recv": kind, "op": name, "mutator": mut, "depth": _depth[0], "st": st, "pe": pe, "pre": pre, "post": post,
                            "argpre": apre, "argpost": apost, "ret": rsnap, "ret_is": kind if rsnap is None else ("tier" if "kind" in rsnap else "tg")})
    setattr(cls, name, wrapper)


def pytest_configure(config):
    if not _OUT:
        return
    from praatio.data_classes import interval_tier, point_tier, textgrid_tier, textgrid
    for cls in (interval_tier.IntervalTier, point_tier.PointTier, textgrid_tier.TextgridTier):
        for n in TIER_COPY_OPS:
            _wrap(cls, n, "tier", False, snap_tier)
        for n in TIER_MUTATORS:
            _wrap(cls, n, "tier", True, snap_tier)
    for n in TG_COPY_OPS:
        _wrap(textgrid.Textgrid, n, "tg", False, snap_tg)
    for n in TG_MUTATORS:
        _wrap(textgrid.Textgrid, n, "tg", True, snap_tg)


def pytest_sessionfinish(session, exitstatus):
    if not _OUT:
        return
    with open(_OUT, "w") as f:
        for e in _events:
            f.write(json.dumps(e, default=repr) + "\n")
