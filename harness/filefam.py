"""File family (C01-C04): coding of real file text for the TLA+ lexer, number tables (ranks / grid),
concretization of TLC-generated abstract documents and files, JSON decoding into abstract documents."""
import json
import math
import os
import struct
from decimal import Decimal
from fractions import Fraction

from . import common
from . import tier as T

# --------------------------------------------------------------------------- character coding

def cls_of(ch):
    if ch == '"':
        return "Q"
    if ch == "\n":
        return "NL"
    if ch in " \t\r":
        return "SP"
    if ch == "!":
        return "BANG"
    if ch == "<":
        return "LT"
    if ch == ">":
        return "GT"
    if ch in "0123456789":
        return "D"
    if ch == ".":
        return "DOT"
    if ch == "+":
        return "PL"
    if ch == "-":
        return "MI"
    if ch in "eE":
        return "E"
    if ch == "%":
        return "PC"
    return "O"


class CharTable:
    def __init__(self):
        self.idx = {}

    def code(self, ch):
        i = self.idx.get(ch)
        if i is None:
            i = len(self.idx)
            self.idx[ch] = i
        return [cls_of(ch), i]

    def text(self, s):
        return [self.code(c) for c in s]


def words_of(text):
    """(start, end) of maximal runs of non-blank characters"""
    out = []
    i, n = 0, len(text)
    while i < n:
        if text[i] in " \t\r\n":
            i += 1
            continue
        j = i
        while j < n and text[j] not in " \t\r\n":
            j += 1
        out.append((i, j))
        i = j
    return out


def word_value(w):
    """the float a word denotes if it is (syntactically) a Praat number; None otherwise"""
    s = w[:-1] if w.endswith("%") else w
    if not s or any(c not in "0123456789.+-eE" for c in s):
        return None
    try:
        return float(s)
    except ValueError:
        return None


def code_file_text(text, table, numid):
    """file text -> list of [cls, idx, num, ival]; numid(float) -> abstract number of a word"""
    out = [c + [-1, -1] for c in table.text(text)]
    for i, j in words_of(text):
        w = text[i:j]
        v = word_value(w)
        if v is not None:
            out[i][2] = numid(v)
            if w.isdigit() and len(w) < 7:
                out[i][3] = int(w)
    return out


# --------------------------------------------------------------------------- number tables

def fkey(x):
    """bit-level identity of a float (0.0 and -0.0 identified)"""
    x = float(x)
    if x == 0.0:
        x = 0.0
    return struct.pack(">d", x)


def near_ints(x):
    """the integers x is within 1e-14 (relative) of and different from (the writer may print either neighbour)"""
    x = float(x)
    if math.isinf(x) or math.isnan(x):
        return []
    out = []
    for n in (math.floor(x), math.ceil(x)):
        if float(n) != x and abs(x - n) <= 1e-14 * max(abs(x), abs(n)) and float(n) not in out:
            out.append(float(n))
    return out


class RankTable:
    """ranks of all floats of one event: equal rank <=> same bits, rank order = numeric order"""

    def __init__(self, floats):
        vals = {}
        for x in floats:
            x = float(x)
            vals[fkey(x)] = x
            for a in near_ints(x):
                vals[fkey(a)] = a
        self.sorted = sorted(vals.values())
        self.rank = {fkey(x): i for i, x in enumerate(self.sorted)}

    def id(self, x):
        r = self.rank.get(fkey(x))
        return -7 if r is None else r

    def mem(self, x):
        a = [self.id(n) for n in near_ints(x)] + [-1, -1]
        return {"v": self.id(x), "alt": a[0], "alt2": a[1]}


class GridTable:
    def __init__(self, unit, base=0.0):
        self.unit = Fraction(unit)
        self.base = Fraction(base)
        self.off = 0

    def id(self, x):
        try:
            k = (Fraction(float(x)) - self.base) / self.unit
        except (ValueError, OverflowError):
            self.off += 1
            return -900000 - self.off
        kr = round(k)
        if abs(k - kr) > Fraction(1, 10 ** 6):
            self.off += 1
            return -900000 - self.off
        return int(kr)

    def mem(self, x):
        return {"v": self.id(x), "alt": -1, "alt2": -1}

    def g(self, k):
        return float(self.base + self.unit * k)


# --------------------------------------------------------------------------- real objects <-> abstract documents

def tg_floats(tg):
    out = [tg.minTimestamp, tg.maxTimestamp]
    for t in tg.tiers:
        out += [t.minTimestamp, t.maxTimestamp]
        for e in t.entries:
            out += list(e[:-1])
    return out


def doc_of_tg(tg, table, num):
    """in-memory Textgrid -> abstract document; num(float) -> number representation"""
    textgrid = T.praatio()[0]
    tiers = []
    for t in tg.tiers:
        if isinstance(t, textgrid.IntervalTier):
            ents = [{"s": num(e[0]), "e": num(e[1]), "l": table.text(e[2])} for e in t.entries]
            kind = "I"
        else:
            ents = [{"t": num(e[0]), "l": table.text(e[1])} for e in t.entries]
            kind = "P"
        tiers.append({"kind": kind, "name": table.text(t.name), "lo": num(t.minTimestamp), "hi": num(t.maxTimestamp),
                      "ents": ents})
    return {"lo": num(tg.minTimestamp), "hi": num(tg.maxTimestamp), "tiers": tiers}


BADDOC = {"ok": False, "why": "undecodable"}


def doc_of_json(text, fmt, table, numid):
    """JSON written by praatio -> abstract document, checking the README schemas structurally"""
    def bad(why):
        return {"ok": False, "why": why}
    try:
        d = json.loads(text)
    except ValueError:
        return bad("not json")
    isnum = lambda x: isinstance(x, (int, float)) and not isinstance(x, bool)
    try:
        if fmt == "json":
            if set(d.keys()) != {"start", "end", "tiers"} or not isinstance(d["tiers"], dict):
                return bad("json keys")
            lo, hi = d["start"], d["end"]
            items = [(name, td.get("type"), lo, hi, td.get("entries"), set(td.keys()) == {"type", "entries"})
                     for name, td in d["tiers"].items()]
        else:
            if set(d.keys()) != {"xmin", "xmax", "tiers"} or not isinstance(d["tiers"], list):
                return bad("textgrid_json keys")
            lo, hi = d["xmin"], d["xmax"]
            items = [(td.get("name"), td.get("class"), td.get("xmin"), td.get("xmax"), td.get("entries"),
                      set(td.keys()) == {"class", "name", "xmin", "xmax", "entries"}) for td in d["tiers"]]
        if not (isnum(lo) and isnum(hi)):
            return bad("span type")
        tiers = []
        for name, klass, tlo, thi, ents, keysok in items:
            if not keysok or klass not in ("IntervalTier", "TextTier") or not isinstance(name, str) \
                    or not isinstance(ents, list) or not (isnum(tlo) and isnum(thi)):
                return bad("tier schema")
            out = []
            for e in ents:
                if klass == "IntervalTier":
                    if not (isinstance(e, list) and len(e) == 3 and isnum(e[0]) and isnum(e[1]) and isinstance(e[2], str)):
                        return bad("interval schema")
                    out.append({"s": numid(e[0]), "e": numid(e[1]), "l": table.text(e[2])})
                else:
                    if not (isinstance(e, list) and len(e) == 2 and isnum(e[0]) and isinstance(e[1], str)):
                        return bad("point schema")
                    out.append({"t": numid(e[0]), "l": table.text(e[1])})
            tiers.append({"kind": "I" if klass == "IntervalTier" else "P", "name": table.text(name),
                          "lo": numid(tlo), "hi": numid(thi), "ents": out})
        return {"ok": True, "lo": numid(lo), "hi": numid(hi), "tiers": tiers}
    except (AttributeError, TypeError, KeyError):
        return bad("json structure")


def json_floats(text):
    out = []

    def walk(x):
        if isinstance(x, bool):
            return
        if isinstance(x, (int, float)):
            out.append(float(x))
        elif isinstance(x, list):
            for y in x:
                walk(y)
        elif isinstance(x, dict):
            for y in x.values():
                walk(y)
    try:
        walk(json.loads(text))
    except ValueError:
        pass
    return out


def text_floats(text):
    out = []
    for i, j in words_of(text):
        v = word_value(text[i:j])
        if v is not None and not math.isnan(v):
            out.append(v)
    return out


FORMATS = ["short_textgrid", "long_textgrid", "json", "textgrid_json"]


def k_codes(table):
    return {"oo": table.text("ooTextFile"), "tg": table.text("TextGrid"), "it": table.text("IntervalTier"),
            "tt": table.text("TextTier"), "ex": table.text("<exists>")}


def save_event(tg, eid, blanks, lo=None, hi=None, use_t=True, threshold=None, grid=None, workdir=None, features=None):
    """Saves tg in all four formats with the given options through Textgrid.save and returns the 'save' event.
    grid: a GridTable (numbers become grid coordinates, C04) or None (rank table, C01/C02)."""
    errors = T.praatio()[1]
    texts = {}
    st, pe = "ok", False
    kw = {}
    if lo is not None:
        kw["minTimestamp"] = lo
    if hi is not None:
        kw["maxTimestamp"] = hi
    if not use_t:
        kw["minimumIntervalLength"] = None
    elif threshold is not None:
        kw["minimumIntervalLength"] = threshold
    left = "nothing"
    for fmt in FORMATS:
        fn = os.path.join(workdir, "out-%d-%d.%s" % (os.getpid(), eid, fmt))
        if os.path.exists(fn):
            os.remove(fn)
        try:
            tg.save(fn, fmt, blanks, reportingMode="silence", **kw)
            with open(fn, "r", encoding="utf-8", newline="") as f:
                texts[fmt] = f.read()
        except Exception as ex:  # noqa
            st = type(ex).__name__
            pe = isinstance(ex, errors.PraatioException)
            texts = {}
            left = "file" if os.path.exists(fn) else "nothing"      # what the raising save left at its (fresh) destination
            break
        finally:
            if os.path.exists(fn):
                os.remove(fn)
    table = CharTable()
    if grid is not None:
        num = grid.mem
        numid = grid.id
    else:
        fl = tg_floats(tg) + [x for x in (lo, hi) if x is not None]
        for fmt, txt in texts.items():
            fl += json_floats(txt) if "json" in fmt else text_floats(txt)
        rt = RankTable(fl)
        num, numid = rt.mem, rt.id
    mem = doc_of_tg(tg, table, num)
    none = {"v": 0, "alt": -1, "alt2": -1}
    args = {"blanks": bool(blanks), "haslo": lo is not None, "lo": num(lo) if lo is not None else none,
            "hashi": hi is not None, "hi": num(hi) if hi is not None else none, "useT": bool(use_t), "T2": 0}
    empty = []
    ev = {"id": eid, "fam": "file", "op": "save", "args": args, "mem": mem, "st": st, "pe": pe,
          "texts": {"short": code_file_text(texts["short_textgrid"], table, numid) if texts else empty,
                    "long": code_file_text(texts["long_textgrid"], table, numid) if texts else empty},
          "jsons": {"json": doc_of_json(texts["json"], "json", table, numid) if texts else BADDOC,
                    "tgjson": doc_of_json(texts["textgrid_json"], "textgrid_json", table, numid) if texts else BADDOC},
          "K": k_codes(table), "grid": grid is not None, "features": features or {}, "left": left}
    return ev, texts


# --------------------------------------------------------------------------- concretization of TLC documents / files

NUMBER_POOLS = {
    # id -> float, strictly monotone in id; id 0 is always 0.0 (spelled -0 by class neg0)
    "plain": {0: 0.0, 1: 0.1, 2: 0.30000000000000004, 3: 1.0 / 3.0, 9: 123456789.125},
    "tiny": {0: 0.0, 1: 1e-17, 2: 5e-05, 3: 9.999999999999999e-05, 9: 0.001},
    "nearint": {0: 0.0, 1: 0.9999999999999999, 2: 2.000000000000001, 3: 3.0000000001, 9: 1e15},
    "ints": {0: 0.0, 1: 1.0, 2: 2.0, 3: 3.0, 9: 9007199254740992.0},
    "dyadic": {0: 0.0, 1: 0.5, 2: 1.25, 3: 1.25 + 2.0 ** -20, 9: 1024.0625},
    # every difference is at least the default minimumIntervalLength and two are exactly it (1e-08 - 0, 2e-08 - 1e-08):
    # intervals and gaps exactly at the threshold are not slivers and must be written
    "thresh": {0: 0.0, 1: 1e-08, 2: 2e-08, 3: 0.5, 9: 1.0},
}


def spell(v, sp):
    """a spelling of float v in spelling class sp that Python's float() maps back to exactly v"""
    v = float(v)
    r = repr(v)                                   # shortest string that round-trips
    d = Decimal(r)
    plain = format(d, "f")                        # positional notation, no exponent
    ip, _, fp = plain.partition(".")
    is_int = fp.strip("0") == ""
    withdot = plain if "." in plain else plain + ".0"
    _, digits, exp = d.as_tuple()
    ds = "".join(map(str, digits)).lstrip("0") or "0"
    sci = exp + len(ds) - 1
    cands = {
        "int": ip if is_int else r,
        "dec": withdot,
        "trail0": withdot + "00",
        "neg0": "-0" if v == 0 else r,
        "exp": "%se%d" % (ds, exp),
        "dexp": "%s.%se%d" % (ds[0], ds[1:] or "0", sci),
        "plusexp": ("%s.%sE+%d" % (ds[0], ds[1:] or "0", sci)) if sci >= 0 else withdot + "e+0",
    }
    cand = cands.get(sp, r)
    try:
        ok = fkey(float(cand)) == fkey(v)
    except ValueError:
        ok = False
    return cand if ok else r


LABEL_POOLS = {
    # abstract payload -> concrete string, for labels/names handed to praatio objects (C01, C02)
    "ascii": {"x": "x", "item": "item [2]:", "=": "=", "7": "7", "n": "n", "p": "p", "[2]:": "[2]:",
              "IntervalTier": "IntervalTier", "text": "text", "_2": "_2"},
    "uni": {"x": "é日本", "item": "intervals [1]:", "=": "text = ", "7": "42", "n": "Mary", "p": "ποιντς",
            "[2]:": "ooTextFile short", "IntervalTier": "TextTier", "text": "mark", "_2": "_2"},
    "emoji": {"x": "\U0001F600", "item": "points [3]:", "=": "==", "7": "007", "n": "tier one", "p": "p",
              "[2]:": "item []:", "IntervalTier": "IntervalTier", "text": "xmin = 0", "_2": "_2"},
}
LABEL_POOLS["plainwords"] = {"x": "x", "item": "item", "=": "=", "7": "7", "n": "n", "p": "p", "[2]:": "[2]", "IntervalTier": "Interval",
                             "text": "text", "_2": "_2"}
LABEL_POOLS["plainuni"] = {"x": "é日本", "item": "\U0001F600", "=": " = ", "7": "3.5", "n": "Mary", "p": "ποιντς", "[2]:": "b c",
                           "IntervalTier": "Tier", "text": "mark", "_2": "_2"}
CLASS_CHARS = {"Q": '"', "NL": "\n", "SP": " ", "BANG": "!", "LT": "<", "GT": ">", "DOT": ".", "PL": "+", "MI": "-",
               "E": "e", "PC": "%"}


def conc_label(chars, pool):
    """abstract label/name (list of [cls, payload]) -> concrete string"""
    out = []
    for c in chars:
        cls, p = c[0], c[1]
        if cls in CLASS_CHARS:
            out.append(CLASS_CHARS[cls])
        else:
            out.append(pool.get(str(p), str(p)))
    return "".join(out)


def conc_text(chars, numpool):
    """TLC-encoded file (list of [cls, payload, num, ival]) -> concrete text; numbers are spelled by class"""
    out = []
    i, n = 0, len(chars)
    while i < n:
        c = chars[i]
        cls, p, num, ival = c
        if num >= 0 or num == -2:
            j = i
            while j < n and chars[j][0] not in ("NL", "SP"):
                j += 1
            pat = "".join({"D": "D", "DOT": ".", "E": "e", "MI": "-", "PL": "+"}.get(x[0], "?") for x in chars[i:j])
            if num == -2:
                out.append(str(ival))
            else:
                sp = {"D": "int", "D.D": "dec", "De-D": "exp", "D.De-D": "dexp", "De+D": "plusexp", "-D": "neg0",
                      "D.DD": "trail0"}.get(pat, "int")
                out.append(spell(numpool[num], sp))
            i = j
            continue
        if cls in CLASS_CHARS:
            out.append(CLASS_CHARS[cls])
        elif cls == "D":
            out.append(str(p))
        else:
            out.append(str(p))
        i += 1
    return "".join(out)


ABSTRACT_ATOMS = ["IntervalTier", "item", "text", "[2]:", "_2", "x", "n", "p", "=", "7"]


def abs_label(s):
    """concrete label (as produced by conc_label with the identity pool) -> abstract [cls, payload] list"""
    out = []
    i = 0
    while i < len(s):
        ch = s[i]
        hit = None
        for a in ABSTRACT_ATOMS:
            if s.startswith(a, i):
                hit = a
                break
        if hit and hit != "7":
            out.append(["O", hit])
            i += len(hit)
            continue
        cls = cls_of(ch)
        if cls == "D":
            out.append(["D", ch])
        elif cls in CLASS_CHARS:
            out.append([cls, 0])
        else:
            out.append(["O", "?" + ch])
        i += 1
    return out


def derail_features(strs, layout):
    """does a name/label contain one of the keywords praatio's text readers search the raw text for?
    layout: short | long | elan | json | tgjson"""
    has = lambda *ks: any(k in s_ for s_ in strs for k in ks)
    f = {"kw_item_bracket": has("item [", "intervals [", "points [", "item["),
         "kw_class_quote": has('"IntervalTier"', '"TextTier"'),
         "kw_class_assign": has('class = "IntervalTier"'),
         "kw_short_marker": has("ooTextFile short")}
    text_layout = layout in ("short", "long", "elan")
    f["derails_reader"] = bool(
        (text_layout and f["kw_item_bracket"])                       # flips the short/long sniffing, splits tiers/entries
        or (layout == "short" and f["kw_class_quote"])               # block search of the short reader
        or (layout in ("long", "elan") and (f["kw_class_assign"] or f["kw_short_marker"])))  # tier-type test / sniffing
    return f
