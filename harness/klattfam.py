"""C19: KlattGrid and point-object files: synthetic files in Praat's layout, projection of Klattgrid trees,
execution of save/open/modify, long/short point-object encodings."""
import contextlib
import io
import os
import random

from . import common
from . import tier as T
from . import filefam as F

_mods = None


def mods():
    global _mods
    if _mods is None:
        T.praatio()
        from praatio import klattgrid, data_points
        from praatio.data_classes import data_point
        _mods = (klattgrid, data_points, data_point)
    return _mods


def num(x):
    """Praat prints integers without a fraction"""
    x = float(x)
    return str(int(x)) if x.is_integer() and abs(x) < 1e15 else repr(x)


def synth_klattgrid(nform, pts, xmax, trailing_newline=True, gain_pts=None, xmin=0):
    """KlattGrid text in Praat's long layout (each line ends with a blank, as Praat writes it).
    pts: dict path -> list of (time, value); unspecified tiers have no points."""
    L = []
    expected = []                     # the leaves the file encodes, in file order: (path, xmin, xmax, points)
    w = lambda s: L.append(s + " ")
    w0 = lambda s: L.append(s)
    L.append('File type = "ooTextFile"')
    L.append('Object class = "KlattGrid"')
    L.append("")

    def span(ind=""):
        w(ind + "xmin = " + num(xmin))
        w(ind + "xmax = " + num(xmax))

    def points(path, ind=""):
        p = pts.get(path, [])
        w(ind + "points: size = %d" % len(p))
        for i, (t, v) in enumerate(p):
            w0(ind + "points [%d]:" % (i + 1))
            w(ind + "    number = " + num(t))
            w(ind + "    value = " + num(v))

    def simple(name):
        w(name + "? <exists>")
        span()
        points(name)
        expected.append((name, float(xmin), float(xmax), [(float(t), float(v)) for t, v in pts.get(name, [])]))

    def header(name):
        w(name + "? <exists>")
        span()
        if name in ("phonation", "vocalTract", "coupling", "frication"):      # plain sections are leaves without points
            expected.append((name, float(xmin), float(xmax), []))

    def group(container, kind, n):
        w("%s: size = %d" % (kind, n))
        for i in range(1, n + 1):
            w0("%s [%d]:" % (kind, i))
            span("    ")
            path = "%s/%s/%s [%d]" % (container, kind, kind, i)
            points(path, "    ")
            expected.append((path, float(xmin), float(xmax), [(float(t), float(v)) for t, v in pts.get(path, [])]))

    span()
    header("phonation")
    for nme in ["pitch", "flutter", "voicingAmplitude", "doublePulsing", "openPhase", "collisionPhase", "power1", "power2",
                "spectralTilt", "aspirationAmplitude", "breathinessAmplitude"]:
        simple(nme)
    header("vocalTract")
    header("oral_formants")
    group("oral_formants", "formants", nform)
    group("oral_formants", "bandwidths", nform)
    header("nasal_formants")
    group("nasal_formants", "formants", 1)
    group("nasal_formants", "bandwidths", 1)
    header("nasal_antiformants")
    group("nasal_antiformants", "formants", 1)
    group("nasal_antiformants", "bandwidths", 1)
    group("nasal_antiformants", "oral_formants_amplitudes", nform)
    group("nasal_antiformants", "nasal_formants_amplitudes", 1)
    header("coupling")
    header("tracheal_formants")
    group("tracheal_formants", "formants", 1)
    group("tracheal_formants", "bandwidths", 1)
    header("tracheal_antiformants")
    group("tracheal_antiformants", "formants", 1)
    group("tracheal_antiformants", "bandwidths", 1)
    group("tracheal_antiformants", "tracheal_formants_amplitudes", 1)
    header("delta_formants")
    group("delta_formants", "formants", 1)
    group("delta_formants", "bandwidths", 1)
    header("frication")
    simple("fricationAmplitude")
    header("frication_formants")
    group("frication_formants", "formants", nform)
    group("frication_formants", "bandwidths", nform)
    group("frication_formants", "frication_formants_amplitudes", nform)
    simple("bypass")
    simple("gain")
    text = "\n".join(L)
    synth_klattgrid.last_expected = expected
    return text + ("\n" if trailing_newline else "")


def open_event(kg, expected, eid, st="ok"):
    """the first open of a synthetic file against what the file encodes (growth check X05)"""
    got = leaves(kg) if kg is not None else []
    rt = F.RankTable(tree_floats(expected) + tree_floats(got))
    return {"id": eid, "fam": "klatt", "op": "klattOpen", "args": {"k": 0}, "st": st, "pre": proj_tree(expected, rt), "post": proj_tree(got, rt)}


def leaves(kg):
    """[(path, lo, hi, [(t, v)])] in hierarchy order"""
    out = []
    for n in kg.tierNames:
        t = kg.getTier(n)
        if hasattr(t, "tierNameList"):
            for k in t.tierNameList:
                it = t.tierDict[k]
                for s in it.tierNameList:
                    st = it.tierDict[s]
                    out.append(("%s/%s/%s" % (n, k, s), st.minTimestamp, st.maxTimestamp, [tuple(e) for e in st.entries]))
        else:
            out.append((n, t.minTimestamp, t.maxTimestamp, [tuple(e) for e in t.entries]))
    return out


def tree_floats(lv):
    out = []
    for _, lo, hi, pts in lv:
        out += [x for x in (lo, hi) if x is not None]
        for t, v in pts:
            out += [t, v]
    return out


def proj_tree(lv, rt):
    nid = lambda x: -3 if x is None else rt.id(x)
    return [{"path": p, "lo": nid(lo), "hi": nid(hi), "pts": [{"t": rt.id(t), "v": rt.id(v)} for t, v in pts]} for p, lo, hi, pts in lv]


FUNCS = {
    "scale": lambda v: v * 1.2,
    "tenth": lambda v: v * 0.1,
    "const": lambda v: 5,
    "zero": lambda v: 0,
    "neg": lambda v: -v,
    "tiny": lambda v: v * 1e-20,
    "huge": lambda v: v * 1e20,
    "third": lambda v: v / 3.0 + 0.1,
    "constf": lambda v: 60.5,
}
VALUE_POOL = [0.0, 1.0, 5.0, 100.0, 98.61948118117667, 2519.3075148880134, 0.1, 1.0 / 3.0, 1e-300, 1e300, 62.5, 60.0,
              383.52407830611463, 0.30000000000000004, 123456789.125, 1e-05, 7.0]


def modify_event(kg, eid, op, container, kind, tiername, fname):
    """applies modifySubtiers / modifyValues on the live object; returns the event"""
    f = FUNCS[fname]
    before = leaves(kg)
    if op == "modifySubtiers":
        targets = [p for p, _, _, _ in before if p.startswith(container + "/" + kind + "/")]
    else:
        targets = [tiername]
    st = "ok"
    try:
        with contextlib.redirect_stdout(io.StringIO()):
            if op == "modifySubtiers":
                kg.getTier(container).modifySubtiers(kind, f)
            else:
                kg.getTier(tiername).modifyValues(f)
    except Exception as ex:  # noqa
        st = type(ex).__name__
    after = leaves(kg)
    vals = sorted(set(v for _, _, _, pts in before for _, v in pts), key=float)
    fl = tree_floats(before) + tree_floats(after) + [float(f(float(v))) for v in vals]
    rt = F.RankTable(fl)
    fmap = [[rt.id(v), rt.id(float(f(float(v))))] for v in vals]
    return {"id": eid, "fam": "klatt", "op": op, "args": {"targets": targets, "fmap": fmap, "f": fname}, "st": st,
            "pre": proj_tree(before, rt), "post": proj_tree(after, rt)}


def saveopen_event(kg, eid, workdir):
    klattgrid = mods()[0]
    before = leaves(kg)
    fn = os.path.join(workdir, "k-%d-%d.KlattGrid" % (os.getpid(), eid))
    st, kg2, after = "ok", None, []
    try:
        with contextlib.redirect_stdout(io.StringIO()):
            kg.save(fn)
            kg2 = klattgrid.openKlattgrid(fn)
        after = leaves(kg2)
    except Exception as ex:  # noqa
        st = type(ex).__name__
    finally:
        if os.path.exists(fn):
            os.remove(fn)
    rt = F.RankTable(tree_floats(before) + tree_floats(after))
    ev = {"id": eid, "fam": "klatt", "op": "klattSaveOpen", "args": {"k": 0}, "st": st, "pre": proj_tree(before, rt),
          "post": proj_tree(after, rt)}
    return ev, kg2


# --------------------------------------------------------------------------- point objects

def point_texts(klass, lo, hi, pts, compact=False, final_newline=True):
    """the long and the short text encoding of one point object, in Praat's layout (each long line ends with a blank)
    or compact (no trailing blanks)"""
    lt, st = _point_texts(klass, lo, hi, pts)
    if compact:
        lt = "\n".join(line.rstrip(" ") for line in lt.split("\n"))
    if not final_newline:
        lt, st = lt.rstrip("\n"), st.rstrip("\n")
    return lt, st


def _point_texts(klass, lo, hi, pts):
    twoD = klass != "PointProcess"
    longl = ['File type = "ooTextFile"', 'Object class = "%s"' % klass, "", "xmin = %s " % num(lo), "xmax = %s " % num(hi)]
    shortl = ['File type = "ooTextFile"', 'Object class = "%s"' % klass, "", num(lo), num(hi), str(len(pts))]
    if twoD:
        longl.append("points: size = %d " % len(pts))
        for i, (t, v) in enumerate(pts):
            longl += ["points [%d]:" % (i + 1), "    number = %s " % num(t), "    value = %s " % num(v)]
            shortl += [num(t), num(v)]
    else:
        longl.append("nt = %d " % len(pts))
        longl.append("t []: ")
        for i, (t,) in enumerate(pts):
            longl.append("    t [%d] = %s " % (i + 1, num(t)))
            shortl.append(num(t))
    return "\n".join(longl) + "\n", "\n".join(shortl) + "\n"


def proj_po(po, rt):
    if po is None:
        return {"klass": "none", "lo": -3, "hi": -3, "pts": []}
    return {"klass": po.objectClass, "lo": rt.id(po.minTime), "hi": rt.id(po.maxTime),
            "pts": [[rt.id(x) for x in row] for row in po.pointList]}


def point_events(klass, lo, hi, pts, eid, workdir, compact=False, final_newline=True, default_span=False):
    """default_span: the object is built without minTime/maxTime (documented defaults: 0 and the last point's time)"""
    _, data_points, data_point = mods()
    twoD = klass != "PointProcess"
    cls = data_point.PointObject2D if twoD else data_point.PointObject1D
    opener = data_points.open2DPointObject if twoD else data_points.open1DPointObject
    out = []
    fl = [lo, hi] + [x for row in pts for x in row]
    # (1) save / open of the object
    st, back = "ok", None
    fn = os.path.join(workdir, "p-%d-%d" % (os.getpid(), eid))
    try:
        if default_span and pts:
            po = cls(pts, klass)
            lo, hi = 0.0, max(row[0] for row in pts)
            fl += [lo, hi]
        else:
            po = cls(pts, klass, lo, hi)
        po.save(fn)
        back = opener(fn)
        fl += [back.minTime, back.maxTime] + [x for row in back.pointList for x in row]
    except Exception as ex:  # noqa
        st = type(ex).__name__
        po = None
    rt = F.RankTable(fl)
    pre = {"klass": klass, "lo": rt.id(lo), "hi": rt.id(hi), "pts": [[rt.id(x) for x in row] for row in pts]}
    out.append({"id": eid, "fam": "klatt", "op": "pointRT", "args": {"k": 0}, "st": st, "pre": pre, "post": proj_po(back, rt)})
    # (2) long and short encodings of the same data
    ltxt, stxt = point_texts(klass, lo, hi, pts, compact, final_newline)
    res = {}
    objs = {}
    for key, txt in (("long", ltxt), ("short", stxt)):
        with open(fn, "w", encoding="utf-8") as f:
            f.write(txt)
        try:
            o = opener(fn)
            objs[key] = o
            res[key] = ("ok", o)
        except Exception as ex:  # noqa
            res[key] = (type(ex).__name__, None)
    if os.path.exists(fn):
        os.remove(fn)
    fl2 = list(fl)
    for k in res:
        if res[k][1] is not None:
            o = res[k][1]
            fl2 += [o.minTime, o.maxTime] + [x for row in o.pointList for x in row]
    rt2 = F.RankTable(fl2)
    pre2 = {"klass": klass, "lo": rt2.id(lo), "hi": rt2.id(hi), "pts": [[rt2.id(x) for x in row] for row in pts]}
    eq = True
    if "long" in objs and "short" in objs:
        eq = bool(objs["long"] == objs["short"])
    out.append({"id": eid + 1, "fam": "klatt", "op": "pointLongShort", "args": {"npoints": len(pts), "klass": klass}, "st": "ok",
                "pre": pre2, "stlong": res["long"][0], "stshort": res["short"][0], "long": proj_po(res["long"][1], rt2),
                "short": proj_po(res["short"][1], rt2), "eqflag": eq,
                "features": {"npoints0": len(pts) == 0, "klass": klass, "compact": compact, "final_newline": final_newline}})
    return out
