"""Textgrid-level checks: C12 in full, and the Textgrid parts of C06-C10 and C13."""
import os
import shutil
import sys
from concurrent.futures import ThreadPoolExecutor

from . import common
from . import tier as T
from . import tg as G

MAP_OPS = ["addTier", "removeTier", "renameTier", "replaceTier"]
EDIT_OPS = ["cropTg", "eraseTg", "spaceTg", "editTg", "appendTg", "mergeTg", "newTg"]
INVS = ["NoFail", "NamesUnique", "SpanCovers", "EmitInv"]
PROPS_ = ["FailedMutatorNoChange", "CopyOpsPure", "SpanNeverShrinks"]

SIZES = {
    "quick": dict(full=dict(NNames=4, MaxSlots=5, NVariants=3, Depth=5),      # C12's stated universe, design level only
                  emit=dict(NNames=3, MaxSlots=3, NVariants=3, Depth=3),      # every transition replayed
                  edit=dict(N=3, K=1), rand=3000, hist=400, sim=300),
    "thorough": dict(full=dict(NNames=4, MaxSlots=5, NVariants=4, Depth=5),
                     emit=dict(NNames=4, MaxSlots=4, NVariants=3, Depth=3),
                     edit=dict(N=3, K=2), rand=60000, hist=8000, sim=6000),
}


def _cfg(work, name, consts, ops, mode, emit, sl=0, nsl=1):
    c = dict(Mode=mode, NNames=consts.get("NNames", 3), MaxSlots=consts.get("MaxSlots", 3),
             NVariants=consts.get("NVariants", 3), Depth=consts.get("Depth", 1), N=consts.get("N", 3),
             K=consts.get("K", 1), Ops=set(ops), Emit=emit, Slice=sl, NSlices=nsl)
    fn = os.path.join(work, name + ".cfg")
    common.write_cfg(fn, c, invariants=INVS, properties=PROPS_, constraints=["Bound"])
    return fn


def run_part(prop, tier, res, findings, work, map_ops, edit_ops, relevant, plans=None):
    """Adds the Textgrid-level exploration for `prop` to res; returns number of events judged."""
    sz = SIZES[tier]
    vectors = common.LazyVectors()
    design_fail = []
    jobs = []
    if map_ops:
        # (A) design level at the property's stated bounds, all workers, no emission
        jobs.append(("full", _cfg(work, "tg_full", sz["full"], map_ops, "map", False), common.NCPU))
        jobs.append(("emit", _cfg(work, "tg_emit", sz["emit"], map_ops, "map", True), 1))
    nsl = common.NCPU - (2 if map_ops else 0)
    if edit_ops:
        for sl in range(nsl):
            jobs.append(("edit", _cfg(work, "tg_edit%d" % sl, sz["edit"], edit_ops, "edit", True, sl, nsl), 1))

    def one(job):
        return common.run_tlc("MC_Tg", job[1], work, workers=job[2], timeout=7200)

    with ThreadPoolExecutor(max_workers=common.NCPU) as ex:
        for job, r in zip(jobs, ex.map(one, jobs)):
            res.add_tlc(r)
            if common.tlc_failed(r):
                design_fail.append(r["out"][-4000:])
            vectors.extend_from(r["out"])
            r["out"] = r["out"][-4000:]
    if design_fail:
        sys.stderr.write(design_fail[0])
        raise common.MachineryError("TLC reports that TgImpl violates TgProp at design level (or TLC failed)")
    plans = plans or ([("dy", "ascii"), ("dec", "uni")] if tier == "quick" else [("dy", "ascii"), ("dec", "uni"), ("c7", "quote")])
    # events are judged batch by batch and dropped (the thorough tier's two and a half million events do not fit in memory
    # next to anything else running on the machine); `gen` is the number generated so far, which is what seeds the variants
    st = dict(gen=0, judged=0, first=None, last=None)

    def flush(events):
        st["gen"] += len(events)
        events, bad = T.split_broken(events)
        for e in bad:
            res.violations.append((prop + "_api_call_sequence_crashed_outside_the_call_under_test", e))
        for e in events:
            e["id"] = st["judged"]
            st["judged"] += 1
        verdicts, nval, cmd = common.validate_traces("Trace_Tg", events, work, chunk=10000)
        if cmd not in res.cmds:
            res.cmds.append(cmd)
        res.traces += nval
        res.evaluations += len(events)
        for ev in events:
            key = (ev["op"], tuple(sorted((k, v) for k, v in ev["args"].items() if isinstance(v, (str, bool)))), ev["st"],
                   len(ev["pre"]["tiers"]), ev["post"] != ev["pre"] or ev["ret"]["lo"] != -2)
            if ev["pre"]["tiers"]:
                res.distinct.add(key)
        if events:
            st["first"] = st["first"] or events[0]
            st["last"] = events[-1]
        res.judge(events, verdicts, findings, relevant)

    nv = len(vectors)
    ndrift = 0
    BATCH = 200000
    for k, plan in enumerate(plans):
        for b0 in range(0, nv, BATCH):
            chunk = vectors[b0:b0 + BATCH]
            events = G.replay(chunk, [plan], k * nv + b0)
            if k == 0:
                ndrift += sum(1 for v, ev in zip(chunk, events)
                              if not ev.get("broken") and (v["st"], v["ret"], v["post"]) != (ev["st"], ev["ret"], ev["post"]))
            flush(events)
            del events, chunk
    if edit_ops:
        rv = G.rand_edit_vectors(edit_ops, sz["rand"], common.SEED)
        flush(G.replay(rv, [("ms", "ascii")], st["gen"]))
        # reference timestamps exactly maxDifference apart are decided exactly only on the dyadic grid
        flush(G.replay([v for v in rv if v["op"] == "alignTg"], [("dy", "ascii"), ("far", "ascii")], st["gen"]))
    if map_ops:
        flush(G.map_histories(sz["hist"], common.SEED, st["gen"]))
        # spec -> code along behaviours: random walks of the TLC model (full bounds) replayed on live Textgrid objects
        sim_cfg = _cfg(work, "tg_sim", dict(sz["full"], Depth=6), map_ops, "map", False)
        beh, rs = common.simulate_behaviours("MC_Tg", sim_cfg, work, sz["sim"], 13)
        res.transitions += rs["generated"]
        sim_events, sdrift = G.sim_histories(beh, st["gen"])
        res.notes.setdefault("tg", {}).update(dict(simulated_behaviours=len(beh), simulated_steps=len(sim_events), simulated_drift=sdrift))
        flush(sim_events)
        del sim_events
    for ev in [st["first"], st["last"]]:
        if ev is not None:
            res.add_sample({k: ev[k] for k in ("op", "args", "pre", "argt", "st", "ret", "post", "emb")})
    res.notes.setdefault("tg", {}).update(dict(sizes=sz, enumerated_vectors=nv, impl_drift=ndrift))
    return st["judged"]


def apalache_inductive(work):
    """Unbounded histories at property level: Apalache checks that name uniqueness is an inductive invariant of the
    ordered-list model (spec/apalache/TgMapInd.tla).  A failure is a machinery failure (the specification is wrong)."""
    import subprocess
    spec = os.path.join(common.SPEC, "apalache", "TgMapInd.tla")
    out = {}
    for name, args in (("initiation", ["--init=Init", "--inv=IndInv", "--length=0"]),
                       ("consecution", ["--init=IndInit", "--inv=IndInv", "--length=1"])):
        try:
            p = subprocess.run(["apalache-mc", "check"] + args + ["--out-dir=" + os.path.join(work, "apa"), spec],
                               stdout=subprocess.PIPE, stderr=subprocess.STDOUT, text=True, timeout=900, cwd=os.path.dirname(spec))
        except (OSError, subprocess.TimeoutExpired) as ex:
            out[name] = "not run: %s" % type(ex).__name__
            continue
        if "The outcome is: NoError" in p.stdout:
            out[name] = "NoError"
        else:
            sys.stderr.write(p.stdout[-2000:])
            raise common.MachineryError("Apalache: the inductive invariant of TgMapInd fails (%s)" % name)
    return out


def check_c12(prop, tier):
    res = common.Result(prop)
    work = common.scratch()
    try:
        T.praatio()
        rel = lambda c: c.startswith("C12_") or c.startswith("C10_mergeTiers_") or c in ("times_off_grid", "UNKNOWN_OP")
        run_part(prop, tier, res, common.load_findings(), work, MAP_OPS, ["cropTg", "eraseTg", "spaceTg", "editTg", "mergeTg"], rel)
        res.exhaustive = True
        res.notes["apalache_inductive_invariant"] = apalache_inductive(work)
        res.rule = ("TLC explores every addTier/removeTier/renameTier/replaceTier history (4 names, <= 5 slots, indices -2..len+2 and "
                    "None, depth 5) at design level; every transition of a reduced universe and of the tier-wise edits on all two-tier "
                    "textgrids is replayed on real Textgrid objects; plus random millisecond-grid textgrids and live map histories. "
                    "distinct = (op, modes, status, #tiers, changed) classes with a non-empty receiver")
        res.assumptions = ["bounded exploration; the code is bound to TgProp by the replayed executions counted here",
                           "'equals the same operation applied to each tier' is judged against the real tier method run on a copy of each tier"]
        return res.finish(tier)
    finally:
        shutil.rmtree(work, ignore_errors=True)
