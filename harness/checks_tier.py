"""Checks for the tier family (C05-C11, C13 tier part, C14): bounded model checking of TierImpl against
TierProp with TLC, replay of every TLC-enumerated transition into the real code under several
embeddings, random fine-grid vectors, and trace validation of every recorded call by TLC."""
import json
import os
import random
import shutil
import sys
from concurrent.futures import ThreadPoolExecutor

from . import common
from . import tier as T

ALL_UNARY = ["crop", "eraseRegion", "insertSpace", "spaceErase", "editTimestamps", "editRoundTrip",
             "insertEntry", "deleteEntry", "new"]
ALL_BINARY = ["appendTier", "union", "difference", "intersection", "mergeLabels", "dejitter", "morph"]

# property -> configuration
PROPS = {
    "C06": dict(ops=["crop"], kinds=["I", "P"],
                quick=dict(N=5, K=2), thorough=dict(N=6, K=3),
                plans_quick=[("dy", "ascii"), ("dec", "uni")],
                plans_thorough=[("dy", "ascii"), ("dec", "uni"), ("c7", "quote"), ("big", "ascii"), ("tiny", "uni")],
                rand_quick=6000, rand_thorough=120000, extra_clauses=["times_off_grid"]),
    "C07": dict(ops=["eraseRegion"], kinds=["I", "P"],
                quick=dict(N=5, K=2), thorough=dict(N=6, K=3),
                plans_quick=[("dy", "ascii"), ("dec", "uni"), ("c7", "ascii"), ("far", "ascii", 4), ("neg", "ascii", 4)],
                plans_thorough=[("dy", "ascii"), ("dec", "uni"), ("c7", "quote"), ("big", "ascii"), ("tiny", "uni"), ("far", "ascii", 2), ("neg", "ascii", 2)],
                rand_quick=12000, rand_thorough=300000,
                extra_clauses=["times_off_grid", "C05_raw_float_wellformed"]),
    "C08": dict(ops=["insertSpace", "spaceErase"], kinds=["I", "P"],
                quick=dict(N=5, K=2), thorough=dict(N=7, K=3),
                plans_quick=[("dy", "ascii"), ("dec", "uni"), ("c7", "ascii"), ("far", "ascii", 4), ("neg", "ascii", 4)],
                plans_thorough=[("dy", "ascii"), ("dec", "uni"), ("c7", "quote"), ("big", "ascii"), ("tiny", "uni"), ("far", "ascii", 2), ("neg", "ascii", 2)],
                rand_quick=12000, rand_thorough=300000,
                extra_clauses=["times_off_grid", "C05_raw_float_wellformed"]),
    "C09": dict(ops=["editTimestamps", "editRoundTrip", "appendTier"], kinds=["I", "P"],
                quick=dict(N=4, K=2), thorough=dict(N=5, K=2),
                plans_quick=[("dy", "ascii"), ("dec", "uni")],
                plans_thorough=[("dy", "ascii"), ("dec", "uni"), ("c7", "quote"), ("big", "ascii")],
                rand_quick=8000, rand_thorough=150000, extra_clauses=["times_off_grid"]),
    "C10": dict(ops=["union", "difference", "intersection", "mergeLabels"], kinds=["I", "P"],
                quick=dict(N=4, K=2), thorough=dict(N=5, K=3, OneSpan=True),
                plans_quick=[("dy", "ascii"), ("dec", "uni"), ("far", "ascii", 4)],
                plans_thorough=[("dy", "ascii"), ("dec", "uni"), ("c7", "quote"), ("far", "ascii", 2)],
                rand_quick=8000, rand_thorough=150000, extra_clauses=["times_off_grid"]),
    "C11": dict(ops=["insertEntry", "deleteEntry"], kinds=["I", "P"],
                quick=dict(N=4, K=2, Depth=1), thorough=dict(N=5, K=3, Depth=1),
                deep=dict(N=4, K=2, Depth=2),            # histories of two calls, design level only (no emission)
                plans_quick=[("dy", "ascii"), ("dec", "uni"), ("far", "ascii", 4)],
                plans_thorough=[("dy", "ascii"), ("dec", "uni"), ("c7", "quote"), ("far", "ascii", 2)],
                rand_quick=8000, rand_thorough=150000, extra_clauses=["times_off_grid"],
                histories_quick=400, histories_thorough=8000),
    "C14": dict(ops=["dejitter", "morph"], kinds=["I", "P"],
                quick=dict(N=4, K=2), thorough=dict(N=5, K=2),
                plans_quick=[("dy", "ascii"), ("dec", "uni"), ("far", "ascii", 4)],
                plans_thorough=[("dy", "ascii"), ("dec", "uni"), ("c7", "quote"), ("far", "ascii", 2)],
                rand_quick=8000, rand_thorough=150000, extra_clauses=["times_off_grid"]),
    "C05": dict(ops=ALL_UNARY + ALL_BINARY + ["construct"], kinds=["I", "P"],
                quick=dict(N=3, K=2, Depth=1), thorough=dict(N=4, K=2, Depth=1),
                plans_quick=[("dy", "ascii")],
                plans_thorough=[("dy", "ascii"), ("dec", "uni")],
                rand_quick=6000, rand_thorough=100000,
                extra_clauses=["C05_raw_float_wellformed", "C05_validate_agrees"],
                histories_quick=600, histories_thorough=15000),
    "C13": dict(ops=ALL_UNARY + ALL_BINARY, kinds=["I", "P"],
                quick=dict(N=3, K=2, Depth=1), thorough=dict(N=4, K=2, Depth=1),
                plans_quick=[("dy", "ascii")],
                plans_thorough=[("dy", "ascii"), ("dec", "uni")],
                rand_quick=6000, rand_thorough=100000, extra_clauses=[],
                histories_quick=400, histories_thorough=8000),
}

# Textgrid-level part of a property: (map ops, edit ops, clause prefixes that belong to the property)
TG_PARTS = {
    "C06": ([], ["cropTg"], ["C06_", "C12_tierwise_", "C12_crop_"]),
    "C07": ([], ["eraseTg"], ["C07_", "C12_tierwise_", "C12_erase_"]),
    "C08": ([], ["spaceTg"], ["C08_", "C12_tierwise_", "C12_space_"]),
    "C09": ([], ["editTg", "appendTg"], ["C09_", "C12_tierwise_"]),
    "C10": ([], ["mergeTg"], ["C10_"]),
    "C14": ([], ["alignTg"], ["C14_"]),
    "C13": (["addTier", "removeTier", "renameTier", "replaceTier"],
            ["cropTg", "eraseTg", "spaceTg", "editTg", "appendTg", "mergeTg", "newTg", "saveTg", "validateTg"], ["C13_"]),
}

FLOAT_LEVEL_CLAUSES = {"C05_raw_float_wellformed", "C05_validate_agrees", "C05_raises_praatio_error"}
MC_INVARIANTS = ["NoFail", "RecvWF", "EmitInv"]
MC_PROPERTIES = ["CopyOpsPure", "FailedMutatorNoChange", "ArgNeverChanges"]


def run_mc(prop, cfg, tier, work, res, emit=True):
    """Bounded model checking of Impl against Prop (+ emission of every transition as a vector)."""
    consts = dict(cfg[tier])
    consts.setdefault("Depth", 1)
    nsl = common.NCPU
    jobs = []
    for sl in range(nsl):
        c = dict(N=consts["N"], K=consts["K"], Ops=set(cfg["ops"]), Kinds=set(cfg["kinds"]),
                 Depth=consts["Depth"], OneSpan=bool(consts.get("OneSpan", False)), Slice=sl, NSlices=nsl, Emit=emit)
        fn = os.path.join(work, "MC_Tier_%s_%d.cfg" % (prop, sl))
        common.write_cfg(fn, c, invariants=MC_INVARIANTS, properties=MC_PROPERTIES, constraints=["Bound"])
        jobs.append(fn)

    def one(fn):
        return common.run_tlc("MC_Tier", fn, work, workers=1, timeout=7200)

    vectors = common.LazyVectors()
    design_fail = []
    with ThreadPoolExecutor(max_workers=common.NCPU) as ex:
        for r in ex.map(one, jobs):
            res.add_tlc(r)
            if common.tlc_failed(r):
                design_fail.append(r["out"][-4000:])
            vectors.extend_from(r["out"])
            r["out"] = r["out"][-4000:]
    return vectors, design_fail, consts


def relevant_fn(prop, cfg):
    extra = set(cfg.get("extra_clauses", []))
    pref = prop + "_"
    return lambda c: c.startswith(pref) or c in extra or c == "UNKNOWN_OP"


def nontrivial_key(ev):
    """distinct non-trivial class of an event: op, mode-ish args, status, sizes, and whether anything changed"""
    a = ev["args"]
    modes = tuple(sorted((k, v) for k, v in a.items() if isinstance(v, (str, bool))))
    pre = ev["pre"]
    ret = ev["ret"]
    changed = (ret.get("ents") != pre.get("ents")) if ret.get("kind") != "none" else (ev["post"] != pre)
    return (ev["op"], pre["kind"], modes, ev["st"], len(pre.get("ents", [])),
            len(ret.get("ents", [])) if ret.get("kind") != "none" else -1, changed)


def is_nontrivial(ev):
    pre = ev["pre"]
    if not pre.get("ents"):
        return False
    ret = ev["ret"]
    if ev["st"] != "ok":
        return True
    if ret.get("kind") != "none":
        return ret.get("ents") != pre.get("ents") or ret.get("lo") != pre.get("lo") or ret.get("hi") != pre.get("hi")
    return ev["post"] != pre


# --------------------------------------------------------------------------- random vectors on the millisecond grid

def rand_vectors(prop, cfg, n, seed):
    rng = random.Random(seed * 7919 + hash(prop) % 1000)
    HI = 10000
    out = []
    ops = [o for o in cfg["ops"]]
    for _ in range(n):
        op = rng.choice(ops)
        kind = rng.choice(cfg["kinds"])
        if op in ("difference", "intersection", "mergeLabels", "morph", "spaceErase"):
            kind = "I"
        pre = T.rand_tier(rng, kind, 6, HI)
        arg = T.NONE
        args = {"k": 0}
        if op == "crop":
            a, b = T.interesting_times(rng, pre, HI, 2)
            if rng.random() < 0.9 and a > b:
                a, b = b, a
            args = {"a": a, "b": b, "mode": rng.choice(["strict", "lax", "truncated"]) if kind == "I" else "lax",
                    "rebase": rng.random() < 0.5}
        elif op == "eraseRegion":
            a, b = T.interesting_times(rng, pre, HI, 2)
            a = min(max(a, pre["lo"]), pre["hi"])
            b = min(max(b, pre["lo"]), pre["hi"])
            if rng.random() < 0.95 and a > b:
                a, b = b, a
            args = {"a": a, "b": b, "mode": rng.choice(["truncate", "categorical", "error"]) if kind == "I" else "truncate",
                    "shrink": rng.random() < 0.6}
        elif op in ("insertSpace", "spaceErase"):
            s = T.interesting_times(rng, pre, HI, 1)[0]
            s = min(max(s, pre["lo"]), pre["hi"])
            modes = ["stretch", "split"] if op == "spaceErase" else ["stretch", "split", "no_change", "error"]
            args = {"s": s, "d": rng.randint(1, 3000), "mode": rng.choice(modes) if kind == "I" else "error"}
        elif op == "editTimestamps":
            r = rng.random()
            if r < 0.4 and pre["ents"]:
                x = rng.choice(pre["ents"])
                o = -(x.get("s", x.get("t"))) + rng.choice([-1, 0, 1]) if rng.random() < 0.5 else -(x.get("e", x.get("t")))
            elif r < 0.7:
                o = rng.randint(-HI - 10, 0)
            else:
                o = rng.randint(0, 3000)
            args = {"o": o, "mode": rng.choice(["silence", "warning", "error"])}
        elif op == "editRoundTrip":
            args = {"o": rng.randint(1, 3000)}
        elif op == "insertEntry":
            if kind == "I":
                s, e = T.interesting_times(rng, pre, HI + 500, 2)
                if s > e:
                    s, e = e, s
                if s == e and rng.random() < 0.8:
                    e = s + rng.randint(1, 500)
                x = {"s": s, "e": e, "l": "x"}
            else:
                x = {"t": T.interesting_times(rng, pre, HI + 500, 1)[0], "l": "x"}
            args = {"x": x, "cmode": rng.choice(["error", "replace", "merge"]), "rmode": rng.choice(["silence", "warning"]),
                    "padlabel": rng.random() < 0.3}
            if rng.random() < 0.05:
                args[rng.choice(["cmode", "rmode"])] = "bogus"             # an invalid option value: rejected, nothing changes
            elif prop == "C05" and rng.random() < 0.2:
                # "error" is not among the documented reporting modes of insertEntry but is accepted at run time (the call then
                # raises CollisionError AFTER replacing / merging).  Whatever state that leaves must still be a well-formed
                # tier: only C05's clauses look at these events.
                args["rmode"] = "error"
        elif op == "deleteEntry":
            if pre["ents"] and rng.random() < 0.8:
                x = dict(rng.choice(pre["ents"]))
                if rng.random() < 0.15:
                    x["l"] = "zz"
            else:
                x = {"s": 1, "e": 2, "l": "zz"} if kind == "I" else {"t": 1, "l": "zz"}
            args = {"x": x}
        elif op == "construct":
            raw = list(pre["ents"])
            rng.shuffle(raw)
            r = rng.random()
            if kind == "I" and raw and r < 0.25:
                x = dict(rng.choice(raw))
                x["e"] = x["e"] + rng.randint(0, 300)
                x["s"] = max(0, x["s"] - rng.randint(0, 300))
                raw.append(x)                                   # overlapping (or touching) duplicate
            elif kind == "I" and r < 0.35:
                t0 = rng.randint(0, HI)
                raw.append({"s": t0, "e": t0 - rng.randint(0, 3), "l": "x"})      # degenerate / reversed
            args = {"kind": kind, "raw": raw, "lo": rng.choice([pre["lo"], 0]), "hi": rng.choice([pre["hi"], HI + 7]), "pad": rng.random() < 0.5}
        elif op in ALL_BINARY:
            k2 = kind
            if op == "appendTier" and rng.random() < 0.1:
                k2 = "P" if kind == "I" else "I"
            if op == "dejitter":
                k2 = rng.choice(["I", "P"])
            arg = T.rand_tier(rng, k2, 6, HI, name="u")
            if op in ("union", "difference", "intersection", "mergeLabels") and rng.random() < 0.3 and pre["ents"]:
                # share boundaries with the receiver: touching / nested / identical entries
                arg = json.loads(json.dumps(pre))
                arg["name"] = "u"
                if rng.random() < 0.5 and arg["ents"]:
                    arg["ents"].pop(rng.randrange(len(arg["ents"])))
                for x in arg["ents"]:
                    x["l"] = rng.choice(["a", "b"])
            if op == "dejitter":
                D = rng.choice([1, 2, 5, 50, 300])
                # put references exactly D away / equidistant / out of range
                if pre["ents"] and rng.random() < 0.7:
                    ts = []
                    for x in pre["ents"]:
                        for v in ([x["s"], x["e"]] if kind == "I" else [x["t"]]):
                            ts.append(v + rng.choice([-D - 1, -D, -1, 0, 1, D, D + 1]))
                    ts = sorted(set(t for t in ts if 0 <= t <= HI))
                    arg = {"kind": "P", "name": "u", "lo": 0, "hi": HI, "ents": [{"t": t, "l": "a"} for t in ts]}
                args = {"D": D}
            if op == "morph":
                if rng.random() < 0.85:
                    # same number of entries
                    n_e = len(pre["ents"])
                    pts = sorted(rng.sample(range(0, HI + 1), 2 * n_e))
                    arg = {"kind": "I", "name": "u", "lo": 0, "hi": HI,
                           "ents": [{"s": pts[2 * i], "e": pts[2 * i + 1], "l": "b"} for i in range(n_e)]}
                args = {"filter": rng.choice(["all", "none", "a"])}
        out.append({"op": op, "args": args, "pre": pre, "arg": arg})
    return out


# --------------------------------------------------------------------------- histories on live objects

def run_histories(prop, cfg, nhist, seed, start_id, embname="dy", poolname="ascii", maxlen=12):
    """Random operation sequences on ONE live object per history (exact dyadic arithmetic), every step
    recorded with the snapshots taken before and after the call on the real object."""
    rng = random.Random(seed * 104729 + 17)
    emb, pool = T.EMBS[embname], T.POOLS[poolname]
    HI = 64
    events = []
    eid = start_id
    ops = cfg["ops"]
    sub = dict(cfg)
    for h in range(nhist):
        kind = rng.choice(cfg["kinds"])
        cur = T.mk_tier(T.rand_tier(rng, kind, 4, HI), emb, pool)
        for step in range(rng.randint(2, maxlen)):
            pj = T.Proj(emb, pool)
            pre = pj.tier(cur)
            if pj.offgrid or pre["hi"] > 4000:
                break
            kind = pre["kind"]
            cand = [o for o in ops if not (kind == "P" and o in ("difference", "intersection", "mergeLabels", "morph", "spaceErase"))]
            sub["ops"] = [rng.choice(cand)]
            sub["kinds"] = [kind]
            vec = rand_vectors_on(pre, sub, rng, HI)
            try:
                ev, ret = T.run_vector(vec, emb, pool, eid, recv=cur)
            except common.MachineryError:
                raise
            except Exception as ex:  # noqa
                events.append(T.broken_event(eid, vec, ex))
                eid += 1
                break
            ev["hist"] = h
            ev["step"] = step
            events.append(ev)
            eid += 1
            textgrid = T.praatio()[0]
            if isinstance(ret, (textgrid.IntervalTier, textgrid.PointTier)) and ev["st"] == "ok":
                cur = ret
    return events


def sim_histories(prop, cfg, tier, work, res, nbeh, start_id, embname="dy", poolname="ascii"):
    """spec -> code along behaviours: random walks of MC_Tier (calls alternating with Adopt/Continue) generated by
    TLC -simulate and replayed step by step on live tier objects"""
    consts = dict(cfg[tier])
    fn = os.path.join(work, "MC_Tier_sim.cfg")
    common.write_cfg(fn, dict(N=consts["N"], K=consts["K"], Ops=set(cfg["ops"]), Kinds=set(cfg["kinds"]), Depth=6, OneSpan=False,
                              Slice=0, NSlices=1, Emit=False), invariants=["NoFail", "RecvWF"], constraints=["Bound"])
    beh, r = common.simulate_behaviours("MC_Tier", fn, work, nbeh, 13)
    res.transitions += r["generated"]
    emb, pool = T.EMBS[embname], T.POOLS[poolname]
    textgrid = T.praatio()[0]
    events, eid, drift_n = [], start_id, 0
    for h, states in enumerate(beh):
        live = T.mk_tier(states[0]["recv"], emb, pool)
        for k, st in enumerate(states):
            o = st["out"]
            if o.get("op", "none") == "none":
                continue
            vec = {"op": o["op"], "args": o["args"], "pre": o["pre"], "arg": o["arg"]}
            try:
                ev, ret = T.run_vector(vec, emb, pool, eid, recv=live)
            except common.MachineryError:
                raise
            except Exception as ex:  # noqa
                events.append(T.broken_event(eid, vec, ex))
                eid += 1
                break
            ev["hist"], ev["step"] = h, k
            if (ev["st"], ev["ret"], ev["post"]) != (o["st"], o["ret"], o["post"]):
                drift_n += 1
            events.append(ev)
            eid += 1
            # the model continues with the returned tier (Adopt) or with the receiver (Continue)
            nxt = states[k + 1]["recv"] if k + 1 < len(states) else None
            if nxt is not None and o["st"] == "ok" and o["ret"].get("kind") != "none" and nxt == o["ret"] and nxt != o["post"]:
                if isinstance(ret, (textgrid.IntervalTier, textgrid.PointTier)):
                    live = ret
    res.notes["simulated"] = dict(behaviours=len(beh), steps=len(events), drift=drift_n)
    return events


def rand_vectors_on(pre, cfg, rng, HI):
    """one random vector whose receiver is the given abstract tier (coarse grid for histories)"""
    return rand_vectors_small(cfg, rng, pre, HI)


def rand_vectors_small(cfg, rng, pre, HI):
    op = cfg["ops"][0]
    kind = pre["kind"]
    arg = T.NONE
    args = {"k": 0}
    span = max(pre["hi"], 8)
    tm = lambda n=1: T.interesting_times(rng, pre, span + 4, n)
    if op == "crop":
        a, b = tm(2)
        if rng.random() < 0.9 and a > b:
            a, b = b, a
        args = {"a": a, "b": b, "mode": rng.choice(["strict", "lax", "truncated"]) if kind == "I" else "lax",
                "rebase": rng.random() < 0.5}
    elif op == "eraseRegion":
        a, b = tm(2)
        a = min(max(a, pre["lo"]), pre["hi"])
        b = min(max(b, pre["lo"]), pre["hi"])
        if rng.random() < 0.95 and a > b:
            a, b = b, a
        args = {"a": a, "b": b, "mode": rng.choice(["truncate", "categorical", "error"]) if kind == "I" else "truncate",
                "shrink": rng.random() < 0.6}
    elif op in ("insertSpace", "spaceErase"):
        s = min(max(tm()[0], pre["lo"]), pre["hi"])
        modes = ["stretch", "split"] if op == "spaceErase" else ["stretch", "split", "no_change", "error"]
        args = {"s": s, "d": rng.randint(1, 16), "mode": rng.choice(modes) if kind == "I" else "error"}
    elif op == "editTimestamps":
        args = {"o": rng.randint(-span - 2, 16), "mode": rng.choice(["silence", "warning", "error"])}
    elif op == "editRoundTrip":
        args = {"o": rng.randint(1, 16)}
    elif op == "insertEntry":
        if kind == "I":
            s, e = tm(2)
            if s > e:
                s, e = e, s
            if s == e and rng.random() < 0.8:
                e = s + rng.randint(1, 8)
            x = {"s": s, "e": e, "l": "x"}
        else:
            x = {"t": tm()[0], "l": "x"}
        args = {"x": x, "cmode": rng.choice(["error", "replace", "merge"]), "rmode": rng.choice(["silence", "warning"]),
                "padlabel": rng.random() < 0.3}
    elif op == "deleteEntry":
        if pre["ents"] and rng.random() < 0.8:
            x = dict(rng.choice(pre["ents"]))
        else:
            x = {"s": 1, "e": 2, "l": "zz"} if kind == "I" else {"t": 1, "l": "zz"}
        args = {"x": x}
    elif op == "construct":
        raw = list(pre["ents"])
        rng.shuffle(raw)
        if kind == "I" and raw and rng.random() < 0.3:
            x = dict(rng.choice(raw))
            x["e"] = x["e"] + rng.randint(0, 3)
            raw.append(x)
        args = {"kind": kind, "raw": raw, "lo": pre["lo"], "hi": pre["hi"], "pad": rng.random() < 0.5}
    elif op in ALL_BINARY:
        k2 = kind
        if op == "dejitter":
            k2 = rng.choice(["I", "P"])
            args = {"D": rng.choice([1, 2, 4])}
        arg = T.rand_tier(rng, k2, 4, span, name="u")
        if op == "morph":
            n_e = len(pre["ents"])
            if rng.random() < 0.85 and 2 * n_e <= span + 1:
                pts = sorted(rng.sample(range(0, span + 1), 2 * n_e))
                arg = {"kind": "I", "name": "u", "lo": 0, "hi": span,
                       "ents": [{"s": pts[2 * i], "e": pts[2 * i + 1], "l": "b"} for i in range(n_e)]}
            args = {"filter": rng.choice(["all", "none", "a"])}
    return {"op": op, "args": args, "pre": pre, "arg": arg}


# --------------------------------------------------------------------------- the check

def drift(vec, ev):
    """does the real code's result differ from the Impl transcription's (informational)"""
    return (vec["st"] != ev["st"]) or (vec["ret"] != ev["ret"]) or (vec["post"] != ev["post"])


def check(prop, tier):
    cfg = PROPS[prop]
    res = common.Result(prop)
    work = common.scratch()
    findings = common.load_findings()
    try:
        T.praatio()
        # (A) design level: TLC, exhaustive within the bounds; emits every transition
        vectors, design_fail, consts = run_mc(prop, cfg, tier, work, res)
        if design_fail:
            sys.stderr.write(design_fail[0])
            print("MACHINERY: TLC reports that TierImpl violates TierProp at design level (or TLC failed); "
                  "the specification itself needs attention")
            return 2
        if not vectors:
            raise common.MachineryError("TLC emitted no vectors")
        res.exhaustive = True
        if tier == "thorough" and "deep" in cfg:
            d = cfg["deep"]
            fn = os.path.join(work, "MC_Tier_deep.cfg")
            common.write_cfg(fn, dict(N=d["N"], K=d["K"], Ops=set(cfg["ops"]), Kinds=set(cfg["kinds"]), Depth=d["Depth"], OneSpan=False,
                                      Slice=0, NSlices=1, Emit=False), invariants=MC_INVARIANTS, properties=MC_PROPERTIES, constraints=["Bound"])
            r = common.run_tlc("MC_Tier", fn, work, workers=common.NCPU, timeout=7200)
            res.add_tlc(r)
            if common.tlc_failed(r):
                sys.stderr.write(r["out"][-3000:])
                raise common.MachineryError("deep design-level run failed")
            res.notes["deep_design_run"] = dict(constants=d, states=r["distinct"], transitions=r["generated"])
        # (B) spec -> code: replay every enumerated transition under the embeddings; (C) code -> spec: TLC judges every
        # recorded call.  Done plan by plan and in batches so that memory stays bounded in the thorough tier.
        plans = cfg["plans_" + tier]
        nv = len(vectors)
        ndrift = 0
        rel = relevant_fn(prop, cfg)
        BATCH = 250000

        def process(events, sample=False, rel=rel):
            events, bad = T.split_broken(events)
            for e in bad:
                res.violations.append((prop + "_api_call_sequence_crashed_outside_the_call_under_test", e))
            verdicts, nval, cmd = common.validate_traces("Trace_Tier", events, work)
            if cmd not in res.cmds:
                res.cmds.append(cmd)
            res.traces += nval
            res.evaluations += len(events)
            for ev in events:
                if is_nontrivial(ev):
                    res.distinct.add(nontrivial_key(ev))
            if sample:
                shown = 0
                for ev in events:
                    if ev["st"] == "ok" and is_nontrivial(ev) and len(ev["pre"].get("ents", [])) >= 2:
                        res.add_sample({k: ev[k] for k in ("op", "args", "pre", "arg", "st", "ret", "post", "emb")})
                        shown += 1
                        if shown == 2:
                            break
            res.judge(events, verdicts, findings, rel)

        for pi, plan in enumerate(plans):
            stride = plan[2] if len(plan) > 2 else 1          # (embedding, label pool[, every n-th vector only])
            plan = plan[:2]
            for b0 in range(0, nv, BATCH):
                chunk = vectors[b0:b0 + BATCH][::stride]
                events = T.replay(chunk, [plan], 0)
                if pi == 0:
                    ndrift += sum(1 for v, ev in zip(chunk, events) if not ev.get("broken") and drift(v, ev))
                process(events, sample=(pi == 0 and b0 == 0))
                del events
        # (S3) random vectors on the millisecond grid (arbitrary 3-decimal timestamps)
        rv = rand_vectors(prop, cfg, cfg["rand_" + tier], common.SEED)
        for plan in [("ms", "ascii"), ("ms", "uni")][: (2 if tier == "thorough" else 1)]:
            for b0 in range(0, len(rv), BATCH):
                process(T.replay(rv[b0:b0 + BATCH], [plan], 0), sample=(b0 == 0))
        # histories on live objects
        nh = cfg.get("histories_" + tier, 0)
        if nh:
            process(run_histories(prop, cfg, nh, common.SEED, 0))
            process(sim_histories(prop, cfg, tier, work, res, max(50, nh // 4), 0))
            if prop == "C05":
                # histories under the decimal embedding: rounding noise accumulates on the live object while the arguments
                # come fresh from the grid, so boundaries one ulp apart meet.  The grid model has nothing to say about such
                # states; only the float-level clauses (computed on the real floats) are judged.
                process(run_histories(prop, cfg, nh * 2, common.SEED + 1, 0, embname="dec", poolname="uni"),
                        rel=lambda c: c in FLOAT_LEVEL_CLAUSES)
                process(run_histories(prop, cfg, nh // 2, common.SEED + 2, 0, embname="c7", poolname="ascii"),
                        rel=lambda c: c in FLOAT_LEVEL_CLAUSES)
        # the Textgrid-level counterparts named by the property
        if prop in TG_PARTS:
            from . import checks_tg
            mops, eops, prefixes = TG_PARTS[prop]
            rel2 = lambda c: any(c.startswith(p_) for p_ in prefixes) or c in ("times_off_grid", "UNKNOWN_OP")
            checks_tg.run_part(prop, tier, res, findings, work, mops, eops, rel2,
                               plans=[("dy", "ascii"), ("dec", "uni")] + ([("far", "ascii")] if prop == "C14" else []))
        # the repository's own tests and examples as a trace source (order-only clauses under rank abstraction)
        if prop in ("C05", "C13"):
            from . import recorded
            rev, info = recorded.recorded_events(work)
            for i, e in enumerate(rev):
                e["id"] = i
            rverd, rn, rcmd = common.validate_traces("Trace_Recorded", rev, work)
            res.cmds.append(rcmd)
            res.traces += rn
            res.evaluations += len(rev)
            res.judge(rev, rverd, findings, lambda c: c.startswith(prop + "_"))
            for e in rev:
                res.distinct.add(("recorded", e["recv"], e["op"], e["st"], e["mutator"]))
            res.notes["recorded_suite"] = info
        res.rule = ("every transition of the bounded TLC model (N=%d, K<=%d, ops=%s) replayed under embeddings %s, "
                    "plus %d random millisecond-grid vectors and %d live histories; an event is non-trivial if the "
                    "receiver has entries and the call changed something or raised; distinct = distinct "
                    "(op, kind, modes, status, sizes, changed) classes" %
                    (consts["N"], consts["K"], ",".join(cfg["ops"]), plans, len(rv), nh))
        res.notes.update(dict(constants=consts, enumerated_vectors=nv, impl_drift=ndrift,
                              embeddings=[p[0] for p in plans]))
        res.assumptions = [
            "TLC explores TierImpl (a hand transcription of the Python) exhaustively only within N, K; the code is bound "
            "to TierProp by the replayed and random executions counted here, not proved",
            "float results are projected to grid integers with a relative tolerance of 1e-9 (exact for the dyadic embedding)",
            "label pools never contain the demarcators - , ( )",
        ]
        return res.finish(tier)
    finally:
        shutil.rmtree(work, ignore_errors=True)
