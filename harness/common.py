"""Shared machinery: TLC runner, trace validation, findings, evidence, verdict handling.

Exit codes of a check: 0 property held on everything explored (known findings are
printed), 1 violation (VIOLATION line printed), 2 machinery failure.
"""
import json
import os
import re
import shutil
import subprocess
import sys
import tempfile
import time
import hashlib
from concurrent.futures import ThreadPoolExecutor

VERIF = os.path.dirname(os.path.dirname(os.path.abspath(__file__)))
SPEC = os.path.join(VERIF, "spec")
EVID = os.environ.get("VERIF_EVIDENCE_DIR") or os.path.join(VERIF, "evidence")     # calibration runs on scratch copies write elsewhere
REPLAYS = os.path.join(EVID, "replays")
REPO = os.environ.get("VERIF_REPO", "/repo")
SEED = int(os.environ.get("VERIF_SEED", "0") or 0)
NCPU = min(16, os.cpu_count() or 4)
TLC_JAR = "/opt/veriftools/tla/tla2tools.jar:/opt/veriftools/tla/CommunityModules-deps.jar"


class MachineryError(Exception):
    pass


def scratch():
    base = os.environ.get("TMPDIR", "/tmp")
    return tempfile.mkdtemp(prefix="praatio-verif-", dir=base)


def tier_name():
    t = os.environ.get("VERIF_TIER", "quick")
    return t if t in ("quick", "thorough") else "quick"


# --------------------------------------------------------------------------- TLC

def _cfg_value(v):
    if isinstance(v, bool):
        return "TRUE" if v else "FALSE"
    if isinstance(v, int):
        return str(v)
    if isinstance(v, str):
        return json.dumps(v)
    if isinstance(v, (set, frozenset, list, tuple)):
        return "{" + ", ".join(_cfg_value(x) for x in sorted(v, key=str)) + "}"
    raise TypeError(v)


def write_cfg(path, constants, init="Init", next_="Next", invariants=(), properties=(),
              constraints=(), postconditions=(), view=None):
    lines = []
    if constants:
        lines.append("CONSTANTS")
        for k, v in constants.items():
            lines.append("  %s = %s" % (k, _cfg_value(v)))
    lines.append("INIT %s" % init)
    lines.append("NEXT %s" % next_)
    for i in invariants:
        lines.append("INVARIANT %s" % i)
    for p in properties:
        lines.append("PROPERTY %s" % p)
    for c in constraints:
        lines.append("CONSTRAINT %s" % c)
    for c in postconditions:
        lines.append("POSTCONDITION %s" % c)
    if view:
        lines.append("VIEW %s" % view)
    lines.append("CHECK_DEADLOCK FALSE")
    with open(path, "w") as f:
        f.write("\n".join(lines) + "\n")


_STATS = re.compile(r"(\d[\d,]*) states generated, (\d[\d,]*) distinct states found")


def run_tlc(module, cfg, workdir, workers=1, env=None, timeout=3600, simulate=None, extra=()):
    """Runs TLC on spec/<module>.tla with the given cfg; returns dict(out, rc, generated, distinct)."""
    meta = tempfile.mkdtemp(prefix="meta-", dir=workdir)
    cmd = ["java", "-XX:+UseParallelGC", "-Xmx2g", "-cp", TLC_JAR, "tlc2.TLC",
           "-workers", str(workers), "-metadir", meta, "-noGenerateSpecTE", "-config", cfg]
    if simulate:
        cmd += ["-simulate", simulate]
    cmd += list(extra)
    cmd.append(os.path.join(SPEC, module + ".tla"))
    e = dict(os.environ)
    if env:
        e.update(env)
    for attempt in (1, 2, 3):
        if attempt > 1:
            time.sleep(2 * attempt)
        try:
            p = subprocess.run(cmd, cwd=SPEC, env=e, stdout=subprocess.PIPE, stderr=subprocess.STDOUT,
                               timeout=timeout, text=True, errors="replace")
            out, rc = p.stdout, p.returncode
        except subprocess.TimeoutExpired as ex:
            out = (ex.stdout or b"").decode("utf-8", "replace") if isinstance(ex.stdout, bytes) else (ex.stdout or "")
            rc = -9
            break
        if "Finished in" in out:
            break
        # the JVM/TLC did not run to completion for a reason unrelated to the model (seen rarely with 16
        # concurrent JVMs): retry once, and leave the evidence on stderr
        sys.stderr.write("TLC attempt %d did not finish (rc=%s):\n%s\n" % (attempt, rc, out[-1500:]))
    shutil.rmtree(meta, ignore_errors=True)
    gen = dist = 0
    for m in _STATS.finditer(out):
        gen = int(m.group(1).replace(",", ""))
        dist = int(m.group(2).replace(",", ""))
    return dict(out=out, rc=rc, generated=gen, distinct=dist, cmd=" ".join(cmd[:0] + ["tlc"] + cmd[5:]))


def parse_json_lines(out):
    """Lines PrintT(ToJson(..)) produces: a TLA+ string literal holding JSON."""
    res = []
    for line in out.splitlines():
        if line.startswith('"{') and line.endswith('}"'):
            try:
                res.append(json.loads(json.loads(line)))
            except ValueError:
                raise MachineryError("unparsable TLC JSON line: " + line[:200])
    return res


class LazyVectors:
    """TLC's emitted transitions kept as JSON text and parsed when read: the thorough tier of the tier and Textgrid families
    emits millions of them, which as Python dicts take over ten gigabytes (and are then copied page by page into every
    forked worker by reference counting and the collector)."""

    def __init__(self):
        self.raw = []

    def extend_from(self, out):
        for line in out.splitlines():
            if line.startswith('"{') and line.endswith('}"'):
                try:
                    self.raw.append(json.loads(line))
                except ValueError:
                    raise MachineryError("unparsable TLC JSON line: " + line[:200])

    @staticmethod
    def _parse(s):
        try:
            return json.loads(s)
        except ValueError:
            raise MachineryError("unparsable TLC JSON line: " + s[:200])

    def __len__(self):
        return len(self.raw)

    def __getitem__(self, k):
        if isinstance(k, slice):
            return [self._parse(s) for s in self.raw[k]]
        return self._parse(self.raw[k])

    def __iter__(self):
        for s in self.raw:
            yield self._parse(s)


def settle_memory():
    """Called before worker pools are forked: what exists now is taken out of the collector's reach, so that a collection
    in a worker does not touch (and thereby copy) the parent's pages."""
    import gc
    gc.collect()
    gc.freeze()


def simulate_behaviours(module, cfg, workdir, num, depth, seed=None):
    """TLC -simulate: returns (behaviours, run) where a behaviour is the list of states {variable: value} of one random walk"""
    from . import tlaval
    d = tempfile.mkdtemp(prefix="sim-", dir=workdir)
    r = run_tlc(module, cfg, workdir, workers=1, simulate="file=%s/tr,num=%d" % (d, num),
                extra=["-depth", str(depth), "-seed", str(SEED if seed is None else seed)], timeout=3600)
    if "Finished in" not in r["out"] or "Error:" in r["out"]:
        sys.stderr.write(r["out"][-3000:])
        raise MachineryError("TLC simulation of %s failed" % module)
    beh = tlaval.parse_trace_dir(d)
    shutil.rmtree(d, ignore_errors=True)
    m = re.search(r"The number of states generated: (\d+)", r["out"])
    r["generated"] = int(m.group(1)) if m else 0
    return beh, r


def tlc_failed(r):
    """TLC finished without 'No error has been found' (and it was not just a deadlock/no-next)."""
    return "No error has been found" not in r["out"]


_VERDICT = re.compile(r'<<\s*"VERDICT",\s*(\d+),\s*\{([^}]*)\}\s*>>', re.S)


def parse_verdicts(out):
    res = {}
    for m in _VERDICT.finditer(out):
        res[int(m.group(1))] = sorted(x.strip().strip('"') for x in m.group(2).split(",") if x.strip())
    return res


def validate_traces(trace_module, events, workdir, chunk=20000, cfg=None):
    """Writes events as NDJSON chunks, runs the trace spec on each chunk in parallel TLC processes.

    Returns (verdicts: {id: [clauses]}, n_validated, tlc_cmd).  Raises MachineryError if TLC did not
    consume every line of every chunk.
    """
    if not events:
        return {}, 0, ""
    cfg = cfg or os.path.join(SPEC, trace_module + ".cfg")
    chunks = [events[i:i + chunk] for i in range(0, len(events), chunk)]
    files = []
    for i, ch in enumerate(chunks):
        fn = os.path.join(workdir, "trace-%s-%d.ndjson" % (trace_module, i))
        with open(fn, "w") as f:
            for ev in ch:
                f.write(json.dumps(ev, separators=(",", ":")) + "\n")
        files.append(fn)

    def one(fn):
        r = run_tlc(trace_module, cfg, workdir, workers=1, env={"TRACE_FILE": fn})
        if r["distinct"] == 0 and "VERDICT" not in r["out"]:
            # the JVM did not get going (seen under memory pressure with 16 concurrent JVMs): one retry
            sys.stderr.write("retrying TLC on %s; first attempt said:\n%s\n" % (fn, r["out"][-1500:]))
            r = run_tlc(trace_module, cfg, workdir, workers=1, env={"TRACE_FILE": fn})
        return r

    verdicts = {}
    cmd = ""

    def whole(fn_ch):
        """Runs one chunk to the end.  An event TLC cannot evaluate (an integer beyond 32 bits, an index outside a sequence - which
        only happens when the code under test returned something far outside the model's value range) gets the verdict
        NOT_EVALUABLE and validation goes on behind it: verdicts stay total.  TLC not starting at all, or more than 40 such
        events in a chunk, is a machinery failure."""
        fn, ch = fn_ch
        out_verdicts, offset, rounds = {}, 0, 0
        cur_fn, cur = fn, ch
        while True:
            r = one(cur_fn)
            out_verdicts.update(parse_verdicts(r["out"]))
            if not tlc_failed(r) and r["distinct"] == len(cur) + 1:
                return out_verdicts, r["cmd"]
            k = r["distinct"] - 1
            if r["distinct"] <= 0 or k >= len(cur) or rounds >= 40:
                sys.stderr.write(r["out"][-3000:])
                raise MachineryError("trace validation did not consume %s (%d events, %d states)" % (cur_fn, len(cur), r["distinct"]))
            i = r["out"].find("Error:")
            sys.stderr.write("TLC could not evaluate event %s: %s\n%s\n" % (cur[k].get("id"), r["out"][i:i + 300].replace("\n", " | "),
                                                                         json.dumps(cur[k], default=str)[:1500]))
            out_verdicts.setdefault(cur[k]["id"], []).append("NOT_EVALUABLE")
            cur = cur[k + 1:]
            rounds += 1
            if not cur:
                return out_verdicts, r["cmd"]
            cur_fn = "%s.r%d" % (fn, rounds)
            with open(cur_fn, "w") as f:
                for ev in cur:
                    f.write(json.dumps(ev, separators=(",", ":")) + "\n")

    with ThreadPoolExecutor(max_workers=NCPU) as ex:
        for v, c in ex.map(whole, list(zip(files, chunks))):
            cmd = c
            for k2, v2 in v.items():
                verdicts.setdefault(k2, [])
                verdicts[k2] += [x for x in v2 if x not in verdicts[k2]]
    return verdicts, len(events), cmd


# --------------------------------------------------------------------------- "a message": whatever channel carries it

class Capture:
    """Collects what a call reports while it runs, on any of the channels a library may use for a message: standard output,
    standard error, the warnings module, the logging module.  .any: something was reported."""

    def __enter__(self):
        import contextlib, io, logging, warnings
        self._out, self._err = io.StringIO(), io.StringIO()
        self._stack = contextlib.ExitStack()
        self._stack.enter_context(contextlib.redirect_stdout(self._out))
        self._stack.enter_context(contextlib.redirect_stderr(self._err))
        self._warn = self._stack.enter_context(warnings.catch_warnings(record=True))
        warnings.simplefilter("always")
        self._records = []
        self._handler = logging.Handler()
        self._handler.emit = self._records.append
        logging.getLogger().addHandler(self._handler)
        self._level = logging.getLogger().level
        logging.getLogger().setLevel(logging.DEBUG)
        return self

    def __exit__(self, *exc):
        import logging
        logging.getLogger().removeHandler(self._handler)
        logging.getLogger().setLevel(self._level)
        self._stack.close()
        return False

    @property
    def any(self):
        return bool(self._out.getvalue() or self._err.getvalue() or self._warn or self._records)


# --------------------------------------------------------------------------- robustness of the drivers

def broken_event(eid, item, ex):
    import traceback
    return {"id": eid, "broken": True, "item": repr(item)[:1500], "error": "%s: %s" % (type(ex).__name__, ex),
            "where": traceback.format_exc().splitlines()[-3:]}


class Guarded:
    """Wraps a job function (items, ...) -> events so that an exception raised OUTSIDE the guarded call under test (while
    building inputs or reading results back - which only happens when the code under test misbehaves) yields a 'broken'
    event for that item instead of killing the run.  pos: index of the item list in the job tuple."""

    def __init__(self, fn, pos=0):
        self.fn = fn
        self.pos = pos

    def __call__(self, job):
        out = []
        job = list(job)
        for idx, it in enumerate(job[self.pos]):
            one = list(job)
            one[self.pos] = [it]
            # the element after the item list is the index of the chunk's first item: the function sees each item under its own index
            if self.pos + 1 < len(one) and isinstance(one[self.pos + 1], int) and not isinstance(one[self.pos + 1], bool):
                one[self.pos + 1] = job[self.pos + 1] + idx
            try:
                out.extend(self.fn(tuple(one)))
            except MachineryError:
                raise
            except Exception as ex:  # noqa
                out.append(broken_event(0, it, ex))
        return out


def split_broken(res, prop, events):
    good = [e for e in events if not e.get("broken")]
    for e in events:
        if e.get("broken"):
            res.violations.append((prop + "_api_call_sequence_crashed_outside_the_call_under_test", e))
    return good


# --------------------------------------------------------------------------- findings

def load_findings():
    fn = os.path.join(VERIF, "known_findings.json")
    if not os.path.exists(fn):
        return []
    with open(fn) as f:
        return json.load(f)["findings"]


def match_finding(prop, clause, event, findings):
    """A known finding matches when property, clause and every key of its signature agree with the event."""
    for fd in findings:
        if fd.get("status") != "known" or fd["property"] != prop:
            continue
        if fd.get("clause") and fd["clause"] != clause:
            continue
        sig = fd.get("signature", {})
        feats = event.get("features", {})
        if all(feats.get(k) == v for k, v in sig.items()):
            return fd
    return None


# --------------------------------------------------------------------------- evidence / result

class Result:
    """Collects what a check did; writes evidence; prints the verdict lines; returns the exit code."""

    def __init__(self, prop, level="model_checking"):
        self.prop = prop
        self.level = level
        self.t0 = time.time()
        self.states = 0
        self.transitions = 0
        self.evaluations = 0
        self.traces = 0
        self.samples = []
        self.distinct = set()
        self.per_clause = {}
        self.violations = []     # (clause, event)
        self.known = {}          # what -> count
        self.notes = {}
        self.cmds = []
        self.exhaustive = False
        self.rule = ""
        self.assumptions = []

    def add_tlc(self, r):
        self.states += r["distinct"]
        self.transitions += r["generated"]
        if r["cmd"] not in self.cmds and len(self.cmds) < 6:
            self.cmds.append(r["cmd"])

    def add_sample(self, s):
        if len(self.samples) < 4:
            self.samples.append(s)

    def judge(self, events, verdicts, findings, relevant=None):
        """events: list of event dicts with 'id'; verdicts: {id: [clauses]}.
        relevant(clause) -> bool selects the clauses that belong to this property."""
        byid = {e["id"]: e for e in events}
        for i, clauses in verdicts.items():
            ev = byid.get(i)
            for c in clauses:
                if c == "NOT_EVALUABLE":
                    # the recorded result lies outside the value range the specification can evaluate: wrong outright
                    c = self.prop + "_recorded_result_outside_the_value_range_of_the_specification"
                    self.per_clause[c] = self.per_clause.get(c, 0) + 1
                    self.violations.append((c, ev))
                    continue
                self.per_clause[c] = self.per_clause.get(c, 0) + 1
                if relevant and not relevant(c):
                    continue
                fd = match_finding(self.prop, c, ev or {}, findings)
                if fd:
                    self.known[fd["what"]] = self.known.get(fd["what"], 0) + 1
                else:
                    self.violations.append((c, ev))

    def finish(self, tier, extra_coverage=None):
        os.makedirs(EVID, exist_ok=True)
        wall = time.time() - self.t0
        cov = dict(states=max(self.states, 0), transitions=max(self.transitions, 0),
                   traces_validated_against_impl=self.traces,
                   samples=self.samples or [{"note": "no sample recorded"}],
                   evaluations=self.evaluations, distinct_nontrivial=len(self.distinct),
                   rule=self.rule, exhaustive=self.exhaustive,
                   per_clause_failures=self.per_clause, known_findings_seen=self.known,
                   checker_cmd="; ".join(self.cmds), notes=self.notes)
        if extra_coverage:
            cov.update(extra_coverage)
        ev = dict(property_id=self.prop, tier=tier, seed=SEED, level=self.level, coverage=cov,
                  assumptions=self.assumptions, wall_s=round(wall, 2), violations=len(self.violations))
        with open(os.path.join(EVID, self.prop + ".json"), "w") as f:
            json.dump(ev, f, indent=1, sort_keys=True, default=str)
        for what, n in sorted(self.known.items()):
            print("KNOWN-FINDING: property=%s %s (seen %d times)" % (self.prop, what, n))
        if os.path.isdir(REPLAYS):
            for fn in os.listdir(REPLAYS):
                if fn.startswith(self.prop + "-"):
                    os.remove(os.path.join(REPLAYS, fn))
        if self.violations:
            os.makedirs(REPLAYS, exist_ok=True)
            seen = set()
            first = None
            for clause, evn in self.violations:
                key = clause
                if key in seen:
                    continue
                seen.add(key)
                h = hashlib.sha1(json.dumps([clause, evn], sort_keys=True, default=str).encode()).hexdigest()[:10]
                path = os.path.join(REPLAYS, "%s-%s.json" % (self.prop, h))
                with open(path, "w") as f:
                    json.dump(dict(property=self.prop, clause=clause, event=evn), f, indent=1, default=str)
                n = sum(1 for c, _ in self.violations if c == clause)
                print("DETAIL property=%s clause=%s events=%d" % (self.prop, clause, n))
                print("VIOLATION property=%s replay=%s" % (self.prop, path))
                first = first or path
            print("%s: %d violating events, %d distinct clauses; evaluations=%d traces=%d wall=%.1fs" %
                  (self.prop, len(self.violations), len(seen), self.evaluations, self.traces, wall))
            return 1
        print("%s: ok; states=%d transitions=%d evaluations=%d traces_validated=%d distinct_nontrivial=%d wall=%.1fs" %
              (self.prop, self.states, self.transitions, self.evaluations, self.traces, len(self.distinct), wall))
        return 0
