"""Parser for the TLA+ values TLC prints in simulation trace files (-simulate file=...): records, sequences, sets,
strings, integers, booleans, functions given as (a :> b @@ ...)."""
import os
import re

_TOK = re.compile(r'\s*(<<|>>|\|->|:>|@@|\[|\]|\{|\}|\(|\)|,|"(?:[^"\\]|\\.)*"|-?\d+|[A-Za-z_][A-Za-z0-9_]*)')


def tokens(s):
    pos, out = 0, []
    while True:
        m = _TOK.match(s, pos)
        if not m:
            if s[pos:].strip():
                raise ValueError("cannot tokenize TLA+ value at: " + s[pos:pos + 40])
            return out
        out.append(m.group(1))
        pos = m.end()


class P:
    def __init__(self, toks):
        self.t = toks
        self.i = 0

    def peek(self):
        return self.t[self.i] if self.i < len(self.t) else None

    def take(self, x=None):
        v = self.t[self.i]
        if x is not None and v != x:
            raise ValueError("expected %s, got %s" % (x, v))
        self.i += 1
        return v

    def value(self):
        v = self.peek()
        if v == "<<":
            self.take()
            out = []
            while self.peek() != ">>":
                out.append(self.value())
                if self.peek() == ",":
                    self.take()
            self.take(">>")
            return out
        if v == "[":
            self.take()
            out = {}
            while self.peek() != "]":
                k = self.take()
                self.take("|->")
                out[k] = self.value()
                if self.peek() == ",":
                    self.take()
            self.take("]")
            return out
        if v == "{":
            self.take()
            out = []
            while self.peek() != "}":
                out.append(self.value())
                if self.peek() == ",":
                    self.take()
            self.take("}")
            return out
        if v == "(":
            self.take()
            out = {}
            while True:
                k = self.value()
                self.take(":>")
                out[k if isinstance(k, (str, int)) else str(k)] = self.value()
                if self.peek() == "@@":
                    self.take()
                    continue
                break
            self.take(")")
            # a function with domain 1..n is a sequence
            if out and all(isinstance(k, int) for k in out) and sorted(out) == list(range(1, len(out) + 1)):
                return [out[k] for k in sorted(out)]
            return out
        self.take()
        if v.startswith('"'):
            return bytes(v[1:-1], "utf-8").decode("unicode_escape") if "\\" in v else v[1:-1]
        if v == "TRUE":
            return True
        if v == "FALSE":
            return False
        if re.fullmatch(r"-?\d+", v):
            return int(v)
        return v


def parse_value(s):
    p = P(tokens(s))
    v = p.value()
    return v


_STATE = re.compile(r"^STATE_\d+ ==\s*$", re.M)


def parse_trace_file(path):
    """returns the list of states, each {variable: value}"""
    txt = open(path).read()
    parts = _STATE.split(txt)[1:]
    states = []
    for part in parts:
        body = part.split("\n\\*")[0]
        body = body.split("=====")[0]
        st = {}
        for conj in re.split(r"^/\\ ", body, flags=re.M):
            conj = conj.strip()
            if not conj:
                continue
            name, _, val = conj.partition("=")
            st[name.strip()] = parse_value(val.strip())
        states.append(st)
    return states


def parse_trace_dir(d):
    out = []
    for fn in sorted(os.listdir(d)):
        out.append(parse_trace_file(os.path.join(d, fn)))
    return out
