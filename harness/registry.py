from . import checks_tier, checks_tg, checks_file, checks_audio, checks_misc, checks_query

CHECKS = {}
for _p in checks_tier.PROPS:
    CHECKS[_p] = checks_tier.check
CHECKS["C12"] = checks_tg.check_c12
CHECKS["C02"] = checks_file.check_c02
CHECKS["C04"] = checks_file.check_c04
CHECKS["C03"] = checks_file.check_c03
CHECKS["C01"] = checks_file.check_c01
CHECKS["C16"] = checks_audio.check_c16
CHECKS["C17"] = checks_audio.check_c17
CHECKS["C18"] = checks_audio.check_c18
CHECKS["C19"] = checks_misc.check_c19
CHECKS["C20"] = checks_misc.check_c20
CHECKS["C15"] = checks_query.check_c15

# growth beyond the listed properties (not in MANIFEST.checks)
from . import checks_extra
CHECKS["X01"] = checks_extra.check_scripts
CHECKS["X02"] = checks_extra.check_scripts
REPLAYERS = {}
CHECKS["X10"] = checks_extra.check_refine
CHECKS["X11"] = checks_extra.check_refine
CHECKS["X03"] = checks_extra.check_zwindow
CHECKS["X04"] = checks_extra.check_findall
CHECKS["X05"] = checks_extra.check_klatt_open
CHECKS["X06"] = checks_extra.check_pointobj
CHECKS["X07"] = checks_extra.check_klattmap
CHECKS["X08"] = checks_extra.check_pimeasures
