from . import checks_tier

CHECKS = {}
for _p in checks_tier.PROPS:
    CHECKS[_p] = checks_tier.check
