from . import checks_tier, checks_tg, checks_file

CHECKS = {}
for _p in checks_tier.PROPS:
    CHECKS[_p] = checks_tier.check
CHECKS["C12"] = checks_tg.check_c12
CHECKS["C02"] = checks_file.check_c02
CHECKS["C04"] = checks_file.check_c04
CHECKS["C03"] = checks_file.check_c03
CHECKS["C01"] = checks_file.check_c01
REPLAYERS = {}
