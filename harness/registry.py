from . import checks_tier, checks_tg

CHECKS = {}
for _p in checks_tier.PROPS:
    CHECKS[_p] = checks_tier.check
CHECKS["C12"] = checks_tg.check_c12
REPLAYERS = {}
