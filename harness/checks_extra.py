"""Growth of the specification beyond the listed properties (ids X..; not in MANIFEST.checks, run by ./check X01 etc. and
tools/selftest.py).  Same three steps as the listed checks: TLC checks the code-shaped model against the clauses over a
bounded universe and emits every transition; the transitions (and random larger inputs) are replayed into the real code;
TLC judges the recorded events with the same clauses."""
import json
import os
import shutil
import sys
from concurrent.futures import ThreadPoolExecutor

from . import common
from . import tier as T
from . import scriptsfam as S

SIZES = {"quick": dict(N=3, K=2, rand=4000), "thorough": dict(N=4, K=2, rand=60000)}
X_OPS = {"X01": ["split"], "X02": ["spell"]}
PLANS = [("dy", "ascii"), ("dec", "uni"), ("ms", "ascii")]


def _job(job):
    items, start, workdir = job
    return [S.run_vector(v, S.FineEmb(e), p, start + i, style=start + i) for i, (v, e, p) in enumerate(items)]


def check_scripts(prop, tier):
    res = common.Result(prop)
    work = common.scratch()
    sz = SIZES[tier]
    ops = X_OPS[prop]
    try:
        T.praatio()
        nsl = common.NCPU
        jobs = []
        for sl in range(nsl):
            fn = os.path.join(work, "MC_Scripts_%d.cfg" % sl)
            common.write_cfg(fn, dict(N=sz["N"], K=sz["K"], Emit=True, Slice=sl, NSlices=nsl, Ops=set(ops)), invariants=["NoFail", "EmitInv"])
            jobs.append(fn)
        emitted, fail = [], []
        with ThreadPoolExecutor(max_workers=common.NCPU) as ex:
            for r in ex.map(lambda fn: common.run_tlc("MC_Scripts", fn, work, workers=1, timeout=7200), jobs):
                res.add_tlc(r)
                if common.tlc_failed(r):
                    fail.append(r["out"][-3000:])
                emitted.extend(common.parse_json_lines(r["out"]))
        if fail:
            sys.stderr.write(fail[0])
            raise common.MachineryError("MC_Scripts failed at design level")
        res.exhaustive = True
        vecs = [{"op": e["op"], "args": e["args"], "pre": e["pre"]} for e in emitted]
        for v in vecs:
            if v["op"] == "spell":
                v["args"]["bad"] = sorted(v["args"]["bad"])
        plans = PLANS[:2] if tier == "quick" else PLANS
        items = [(v, emb, pool) for (emb, pool) in plans for v in vecs]
        rv = [v for v in S.rand_vectors(sz["rand"] * 2, common.SEED) if v["op"] in ops][:sz["rand"]]
        items += [(v, PLANS[i % 3][0], PLANS[i % 3][1]) for i, v in enumerate(rv)]
        import multiprocessing as mp
        size = max(1, len(items) // (4 * common.NCPU) + 1)
        chunks = [(items[i:i + size], i, work) for i in range(0, len(items), size)]
        with mp.get_context("fork").Pool(common.NCPU) as pool:
            events = [e for ch in pool.map(common.Guarded(_job), chunks) for e in ch]
        events = common.split_broken(res, prop, events)
        for i, e in enumerate(events):
            e["id"] = i
        for ev in events:
            a = ev["args"]
            src = [t for t in ev["pre"]["tiers"] if t["name"] == a["src"]]
            res.distinct.add((ev["op"], ev["st"], a.get("a", 0) == S.NONE, a.get("b", 0) == S.NONE, a["dst"], len(ev["pre"]["tiers"]),
                              len(src[0]["ents"]) if src else -1, max([len(x["l"]) for x in src[0]["ents"]] + [0]) if src else -1,
                              len(a.get("bad", [])), ev["exactfp"]))
        if events:
            res.add_sample(events[0])
            res.add_sample(events[-1])
        verdicts, nval, cmd = common.validate_traces("Trace_Scripts", events, work, chunk=5000)
        res.cmds.append(cmd)
        res.traces += nval
        res.evaluations += len(events)
        for ev in events:
            if ev.get("broken_input") or ev.get("offgrid"):
                verdicts.setdefault(ev["id"], []).append(prop + ("_input_not_reproduced" if ev.get("broken_input") else "_times_off_grid"))
        res.judge(events, verdicts, common.load_findings(), lambda c: c.startswith(prop + "_") or c == "UNKNOWN_OP")
        res.notes = dict(enumerated=len(emitted), random=len(rv))
        res.assumptions = ["source tiers are interval tiers on a coarse grid, labels have at most four words; rejected-word sets over three words",
                           "deviations D1 (blank entry: ZeroDivisionError) and D2 (rounding of the last part's end against an adjacent entry) "
                           "are modelled in ScriptsImpl and left open by the clauses (spec/ScriptsProp.tla)"]
        res.rule = ("every textgrid of MC_Scripts' universe x every start/end pair on the grid and None x both target names (split) / every "
                    "subset of rejected words x three result names (spell), replayed under two or three embeddings and label pools with "
                    "varying word separators and punctuation styles, plus random larger textgrids")
        return res.finish(tier)
    finally:
        shutil.rmtree(work, ignore_errors=True)
