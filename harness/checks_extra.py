"""Growth of the specification beyond the listed properties (ids X..; not in MANIFEST.checks, run by ./check X01 etc. and
tools/selftest.py).  Same three steps as the listed checks: TLC checks the code-shaped model against the clauses over a
bounded universe and emits every transition; the transitions (and random larger inputs) are replayed into the real code;
TLC judges the recorded events with the same clauses."""
import json
import os
import shutil
import sys
from concurrent.futures import ThreadPoolExecutor

from . import common
from . import tier as T
from . import scriptsfam as S

SIZES = {"quick": dict(N=3, K=2, rand=4000), "thorough": dict(N=4, K=2, rand=60000)}
X_OPS = {"X01": ["split"], "X02": ["spell"]}
PLANS = [("dy", "ascii"), ("dec", "uni"), ("ms", "ascii")]


def _job(job):
    items, start, workdir = job
    return [S.run_vector(v, S.FineEmb(e), p, start + i, style=start + i) for i, (v, e, p) in enumerate(items)]


def check_scripts(prop, tier):
    res = common.Result(prop)
    work = common.scratch()
    sz = SIZES[tier]
    ops = X_OPS[prop]
    try:
        T.praatio()
        nsl = common.NCPU
        jobs = []
        for sl in range(nsl):
            fn = os.path.join(work, "MC_Scripts_%d.cfg" % sl)
            common.write_cfg(fn, dict(N=sz["N"], K=sz["K"], Emit=True, Slice=sl, NSlices=nsl, Ops=set(ops)), invariants=["NoFail", "EmitInv"])
            jobs.append(fn)
        emitted, fail = [], []
        with ThreadPoolExecutor(max_workers=common.NCPU) as ex:
            for r in ex.map(lambda fn: common.run_tlc("MC_Scripts", fn, work, workers=1, timeout=7200), jobs):
                res.add_tlc(r)
                if common.tlc_failed(r):
                    fail.append(r["out"][-3000:])
                emitted.extend(common.parse_json_lines(r["out"]))
        if fail:
            sys.stderr.write(fail[0])
            raise common.MachineryError("MC_Scripts failed at design level")
        res.exhaustive = True
        vecs = [{"op": e["op"], "args": e["args"], "pre": e["pre"]} for e in emitted]
        for v in vecs:
            if v["op"] == "spell":
                v["args"]["bad"] = sorted(v["args"]["bad"])
        plans = PLANS[:2] if tier == "quick" else PLANS
        items = [(v, emb, pool) for (emb, pool) in plans for v in vecs]
        rv = [v for v in S.rand_vectors(sz["rand"] * 2, common.SEED) if v["op"] in ops][:sz["rand"]]
        items += [(v, PLANS[i % 3][0], PLANS[i % 3][1]) for i, v in enumerate(rv)]
        import multiprocessing as mp
        size = max(1, len(items) // (4 * common.NCPU) + 1)
        chunks = [(items[i:i + size], i, work) for i in range(0, len(items), size)]
        with mp.get_context("fork").Pool(common.NCPU) as pool:
            events = [e for ch in pool.map(common.Guarded(_job), chunks) for e in ch]
        events = common.split_broken(res, prop, events)
        for i, e in enumerate(events):
            e["id"] = i
        for ev in events:
            a = ev["args"]
            src = [t for t in ev["pre"]["tiers"] if t["name"] == a["src"]]
            res.distinct.add((ev["op"], ev["st"], a.get("a", 0) == S.NONE, a.get("b", 0) == S.NONE, a["dst"], len(ev["pre"]["tiers"]),
                              len(src[0]["ents"]) if src else -1, max([len(x["l"]) for x in src[0]["ents"]] + [0]) if src else -1,
                              len(a.get("bad", [])), ev["exactfp"]))
        if events:
            res.add_sample(events[0])
            res.add_sample(events[-1])
        verdicts, nval, cmd = common.validate_traces("Trace_Scripts", events, work, chunk=5000)
        res.cmds.append(cmd)
        res.traces += nval
        res.evaluations += len(events)
        for ev in events:
            if ev.get("broken_input") or ev.get("offgrid"):
                verdicts.setdefault(ev["id"], []).append(prop + ("_input_not_reproduced" if ev.get("broken_input") else "_times_off_grid"))
        res.judge(events, verdicts, common.load_findings(), lambda c: c.startswith(prop + "_") or c == "UNKNOWN_OP")
        res.notes = dict(enumerated=len(emitted), random=len(rv))
        res.assumptions = ["source tiers are interval tiers on a coarse grid, labels have at most four words; rejected-word sets over three words",
                           "deviations D1 (blank entry: ZeroDivisionError) and D2 (rounding of the last part's end against an adjacent entry) "
                           "are modelled in ScriptsImpl and left open by the clauses (spec/ScriptsProp.tla)"]
        res.rule = ("every textgrid of MC_Scripts' universe x every start/end pair on the grid and None x both target names (split) / every "
                    "subset of rejected words x three result names (spell), replayed under two or three embeddings and label pools with "
                    "varying word separators and punctuation styles, plus random larger textgrids")
        return res.finish(tier)
    finally:
        shutil.rmtree(work, ignore_errors=True)


# --------------------------------------------------------------------------- X10 / X11: the code follows the Impl modules

def norm_ties(x):
    """Equality modulo what the model does not have: Python's string order.  Entries with the same times (sorted by label
    in the code) and the order in which merged labels are joined are normalised away."""
    if isinstance(x, dict):
        if "ents" in x and isinstance(x["ents"], list):
            ents = []
            for en in x["ents"]:
                en = dict(en)
                if isinstance(en.get("l"), str):
                    en["l"] = "-".join(sorted(en["l"].split("-")))
                ents.append(en)
            ents.sort(key=lambda en: (en.get("s", en.get("t", 0)), en.get("e", 0), str(en.get("l"))))
            x = dict(x, ents=ents)
        return {k: norm_ties(v) if k != "ents" else v for k, v in x.items()}
    if isinstance(x, list):
        return [norm_ties(v) for v in x]
    return x


def check_refine(prop, tier):
    """spec -> code: every transition TLC enumerates for the Impl module is executed on the real objects (dyadic embedding, exact
    arithmetic) and status, returned value and receiver afterwards must be the ones the Impl action computed."""
    from . import checks_tier as CT
    from . import checks_tg as CG
    from . import tg as G
    res = common.Result(prop)
    work = common.scratch()
    clause = prop + ("_real_step_equals_TierImpl_action" if prop == "X10" else "_real_step_equals_TgImpl_action")
    try:
        T.praatio()
        if prop == "X10":
            cfg = dict(CT.PROPS["C05"])
            cfg["quick"], cfg["thorough"] = dict(N=3, K=2, Depth=1), dict(N=4, K=2, Depth=1)
            vectors, fail, consts = CT.run_mc("C05", cfg, tier, work, res)
            if fail:
                sys.stderr.write(fail[0])
                raise common.MachineryError("MC_Tier failed at design level")
            events = T.replay(vectors, [("dy", "ascii")], 0)
            fields = ("st", "ret", "post")
        else:
            sz = CG.SIZES[tier]
            jobs = [CG._cfg(work, "tg_emit", sz["emit"], CG.MAP_OPS, "map", True)]
            nsl = common.NCPU - 1
            jobs += [CG._cfg(work, "tg_edit%d" % sl, sz["edit"], CG.EDIT_OPS, "edit", True, sl, nsl) for sl in range(nsl)]
            vectors = []
            with ThreadPoolExecutor(max_workers=common.NCPU) as ex:
                for r in ex.map(lambda fn: common.run_tlc("MC_Tg", fn, work, workers=1, timeout=7200), jobs):
                    res.add_tlc(r)
                    if common.tlc_failed(r):
                        sys.stderr.write(r["out"][-3000:])
                        raise common.MachineryError("MC_Tg failed at design level")
                    vectors.extend(common.parse_json_lines(r["out"]))
            events = G.replay(vectors, [("dy", "ascii")], 0)
            fields = ("st", "ret", "rett", "post")
        res.exhaustive = True
        events = events[:len(vectors)]
        nbroken = 0
        for v, ev in zip(vectors, events):
            if ev.get("broken"):
                nbroken += 1
                res.violations.append((prop + "_api_call_sequence_crashed_outside_the_call_under_test", ev))
                continue
            res.evaluations += 1
            res.distinct.add((v["op"], v["st"], json.dumps(v["args"], sort_keys=True)[:60]))
            diff = [k for k in fields if k in v and norm_ties(v[k]) != norm_ties(ev.get(k))]
            if diff:
                res.per_clause[clause] = res.per_clause.get(clause, 0) + 1
                res.violations.append((clause, dict(ev, impl={k: v[k] for k in diff}, differs=diff)))
        res.traces = res.evaluations
        if events:
            res.add_sample({k: events[0].get(k) for k in ("op", "args", "pre", "st", "ret", "post")})
        res.notes = dict(enumerated=len(vectors), broken=nbroken)
        res.assumptions = ["equality is modulo the order of entries with identical times and the order of the parts of merged labels "
                           "(both come from Python's string order, which the model does not have)",
                           "dyadic embedding only: under inexact arithmetic the grid model and the floats part ways at ties"]
        res.rule = "every transition of the bounded TLC model executed on real objects; compared: status, return value, receiver afterwards"
        return res.finish(tier)
    finally:
        shutil.rmtree(work, ignore_errors=True)


# --------------------------------------------------------------------------- X03: windowed z-score

def _zw_job(job):
    import contextlib, io
    items, start, workdir = job
    from praatio.utilities import my_math
    out = []
    for i, v in enumerate(items):
        a = v["args"]
        st, ret = "ok", []
        try:
            with contextlib.redirect_stdout(io.StringIO()):
                r = my_math.znormWindowFilter([float(x) for x in v["xs"]], a["window"], a["pad"], a["filterZero"])
            ret = [int(max(-1000000, min(1000000, round(x * 100)))) for x in r]
        except Exception as ex:  # noqa
            st = type(ex).__name__
        out.append({"id": start + i, "fam": "series", "op": "zwindow", "xs": v["xs"], "args": a, "st": st, "ret": ret,
                    "impl": v.get("impl")})
    return out


def check_zwindow(prop, tier):
    import random
    res = common.Result(prop)
    work = common.scratch()
    sz = {"quick": dict(MaxLen=5, VMax=3, rand=4000), "thorough": dict(MaxLen=6, VMax=3, rand=80000)}[tier]
    try:
        T.praatio()
        nsl = common.NCPU
        jobs = []
        for sl in range(nsl):
            fn = os.path.join(work, "MC_SeriesExt_%d.cfg" % sl)
            common.write_cfg(fn, dict(MaxLen=sz["MaxLen"], VMax=sz["VMax"], Emit=True, Slice=sl, NSlices=nsl), invariants=["NoFail", "EmitInv"])
            jobs.append(fn)
        emitted = []
        with ThreadPoolExecutor(max_workers=common.NCPU) as ex:
            for r in ex.map(lambda fn: common.run_tlc("MC_SeriesExt", fn, work, workers=1, timeout=7200), jobs):
                res.add_tlc(r)
                if common.tlc_failed(r):
                    sys.stderr.write(r["out"][-3000:])
                    raise common.MachineryError("MC_SeriesExt failed at design level")
                emitted.extend(common.parse_json_lines(r["out"]))
        res.exhaustive = True
        items = [{"xs": e["xs"], "args": e["args"], "impl": {"st": e["st"], "ret": e["ret"]}} for e in emitted]
        rng = random.Random(common.SEED * 613 + 29)
        for _ in range(sz["rand"]):
            n = rng.randint(0, 14)
            kind = rng.random()
            xs = [rng.randint(0, 9) for _k in range(n)] if kind < 0.6 else [rng.choice([0, 0, 5, 7]) for _k in range(n)] if kind < 0.8 \
                else [rng.randint(1, 9) for _k in range(n)]       # (values <= 9, windows <= 7: the clause arithmetic stays within 32 bits)
            items.append({"xs": xs, "args": {"window": rng.randint(0, 7), "pad": rng.random() < 0.5, "filterZero": rng.random() < 0.5}})
        import multiprocessing as mp
        size = max(1, len(items) // (2 * common.NCPU) + 1)
        chunks = [(items[i:i + size], i, work) for i in range(0, len(items), size)]
        with mp.get_context("fork").Pool(common.NCPU) as pool:
            events = [e for ch in pool.map(common.Guarded(_zw_job), chunks) for e in ch]
        events = common.split_broken(res, prop, events)
        ndrift = 0
        for i, e in enumerate(events):
            e["id"] = i
            impl = e.pop("impl", None)
            # the Impl's rounding is exact, the float's may differ in the last digit at a tie: compare the status, and values within 1
            if impl is not None and (impl["st"] != e["st"] or len(impl["ret"]) != len(e["ret"]) or
                                     any(abs(a - b) > 1 for a, b in zip(impl["ret"], e["ret"]))):
                ndrift += 1
                res.violations.append((prop + "_real_result_equals_ZWindowImpl", dict(e, impl=impl)))
            a = e["args"]
            res.distinct.add((e["st"], a["window"], a["pad"], a["filterZero"], min(len(e["xs"]), 6), 0 in e["xs"]))
        if events:
            res.add_sample(events[0])
            res.add_sample(events[-1])
        verdicts, nval, cmd = common.validate_traces("Trace_SeriesExt", events, work)
        res.cmds.append(cmd)
        res.traces += nval
        res.evaluations += len(events)
        res.judge(events, verdicts, common.load_findings(), lambda c: c.startswith(prop + "_") or c == "UNKNOWN_OP")
        res.notes = dict(enumerated=len(emitted), random=sz["rand"], impl_drift=ndrift)
        res.assumptions = ["integer-valued series (the z-score is compared in exact integer arithmetic up to the rounding of round(100 z))"]
        res.rule = ("every integer series up to MaxLen over 0..VMax x window 0..5 x padding x zero filter of the TLC model replayed through "
                    "my_math.znormWindowFilter (status and values must equal the model's), plus random longer series with zeros, constant runs "
                    "and windows up to 7")
        return res.finish(tier)
    finally:
        shutil.rmtree(work, ignore_errors=True)


# --------------------------------------------------------------------------- X04: utils.findAll (PlusCal loop machine)

FA_ALPHABETS = [{"a": "a", "b": "b"}, {"a": "[", "b": " "}, {"a": "é", "b": "\n"}, {"a": "\U0001F600", "b": "x"}]


def _fa_job(job):
    items, start, workdir = job
    from praatio.utilities import utils
    out = []
    for i, (txt, sub, k) in enumerate(items):
        al = FA_ALPHABETS[k]
        st, ret = "ok", []
        try:
            ret = [int(x) for x in utils.findAll("".join(al[c] for c in txt), "".join(al[c] for c in sub))]
        except Exception as ex:  # noqa
            st = type(ex).__name__
        out.append({"id": start + i, "fam": "findall", "op": "findAll", "txt": txt, "sub": sub, "st": st, "ret": ret})
    return out


def check_findall(prop, tier):
    import random
    res = common.Result(prop)
    work = common.scratch()
    sz = {"quick": dict(MaxTxt=6, MaxSub=3, rand=3000), "thorough": dict(MaxTxt=8, MaxSub=3, rand=50000)}[tier]
    try:
        T.praatio()
        fn = os.path.join(work, "FindAll.cfg")
        with open(fn, "w") as f:
            f.write('CONSTANTS\n  Alphabet = {"a", "b"}\n  MaxTxt = %d\n  MaxSub = %d\n  Emit = TRUE\nSPECIFICATION Spec\nINVARIANT ResultOK\n'
                    'INVARIANT EmitInv\nPROPERTY Termination\nPROPERTY Progress\nCHECK_DEADLOCK FALSE\n' % (sz["MaxTxt"], sz["MaxSub"]))
        r = common.run_tlc("FindAll", fn, work, workers=1, timeout=7200)
        res.add_tlc(r)
        if common.tlc_failed(r):
            sys.stderr.write(r["out"][-3000:])
            raise common.MachineryError("the FindAll loop machine failed at design level (termination / result)")
        emitted = common.parse_json_lines(r["out"])
        res.exhaustive = True
        items = [(e["txt"], e["sub"], k) for k in range(2 if tier == "quick" else 4) for e in emitted]
        rng = random.Random(common.SEED * 31 + 7)
        for _ in range(sz["rand"]):
            txt = [rng.choice("ab") for _k in range(rng.randint(0, 40))]
            sub = [rng.choice("ab") for _k in range(rng.randint(0, 4))]
            if txt and rng.random() < 0.4:
                p = rng.randrange(len(txt))
                sub = txt[p:p + rng.randint(1, 4)]
            items.append((txt, sub, rng.randrange(4)))
        import multiprocessing as mp
        size = max(1, len(items) // (2 * common.NCPU) + 1)
        chunks = [(items[i:i + size], i, work) for i in range(0, len(items), size)]
        with mp.get_context("fork").Pool(common.NCPU) as pool:
            events = [e for ch in pool.map(common.Guarded(_fa_job), chunks) for e in ch]
        events = common.split_broken(res, prop, events)
        ndrift = 0
        for i, (e, it) in enumerate(zip(events, items)):
            e["id"] = i
            res.distinct.add((len(e["txt"]) > 6, len(e["sub"]), len(e["ret"]), e["st"]))
        for e, m in zip(events, emitted):
            if e["st"] != "ok" or e["ret"] != list(m["ret"]):
                ndrift += 1
                res.violations.append((prop + "_real_result_equals_the_loop_machine", dict(e, machine=m["ret"])))
        if events:
            res.add_sample(events[0])
            res.add_sample(events[-1])
        verdicts, nval, cmd = common.validate_traces("Trace_FindAll", events, work)
        res.cmds.append(cmd)
        res.traces += nval
        res.evaluations += len(events)
        res.judge(events, verdicts, common.load_findings(), lambda c: c.startswith(prop + "_"))
        res.notes = dict(machine_runs=len(emitted), random=sz["rand"], impl_drift=ndrift)
        res.assumptions = ["termination is decided for the PlusCal transcription (weak fairness of the loop), the real function is bound to it by "
                           "equal results on every text and pattern of the universe; a hang of the real function would stop the run"]
        res.rule = ("every (text up to MaxTxt, pattern up to MaxSub) over a two-letter alphabet: the loop machine terminates with exactly the "
                    "occurrences (TLC: ResultOK, Termination, Progress); each replayed through utils.findAll under several concrete alphabets "
                    "(ASCII, Praat's brackets and blanks, accented letters and newlines, astral characters), plus random longer texts")
        return res.finish(tier)
    finally:
        shutil.rmtree(work, ignore_errors=True)


# --------------------------------------------------------------------------- X05: openKlattgrid returns what the file encodes

def _ko_job(job):
    import random
    from . import klattfam as K
    from . import checks_misc as CM
    items, start, workdir = job
    klattgrid = K.mods()[0]
    out = []
    for i, p in enumerate(items):
        rng = random.Random(p["seed"])
        txt = K.synth_klattgrid(p["nform"], CM.synth_points(rng, p["nform"], p["npts"], p["xmin"]), 2.5, trailing_newline=p["nl"], xmin=p["xmin"])
        expected = K.synth_klattgrid.last_expected
        fn = os.path.join(workdir, "ko-%d-%d.KlattGrid" % (os.getpid(), start + i))
        with open(fn, "w", encoding="utf-8") as f:
            f.write(txt)
        st, kg = "ok", None
        try:
            kg = klattgrid.openKlattgrid(fn)
        except Exception as ex:  # noqa
            st = type(ex).__name__
        finally:
            os.remove(fn)
        ev = K.open_event(kg, expected, start + i, st)
        ev["shape"] = [p["nform"], p["npts"], p["nl"], p["xmin"]]
        out.append(ev)
    return out


def check_klatt_open(prop, tier):
    import random
    res = common.Result(prop)
    res.level = "exploration"          # no model is explored here: recorded opens are judged by the trace specification only
    work = common.scratch()
    n = {"quick": 400, "thorough": 8000}[tier]
    try:
        T.praatio()
        rng = random.Random(common.SEED * 17 + 3)
        items = [dict(seed=common.SEED * 100000 + i, nform=rng.choice([1, 2, 3, 5, 10, 12]), npts=rng.randint(0, 3), nl=rng.random() < 0.8,
                      xmin=rng.choice([0, 0, 0.25, 0.125])) for i in range(n)]
        import multiprocessing as mp
        size = max(1, len(items) // (2 * common.NCPU) + 1)
        chunks = [(items[i:i + size], i, work) for i in range(0, len(items), size)]
        with mp.get_context("fork").Pool(common.NCPU) as pool:
            events = [e for ch in pool.map(common.Guarded(_ko_job), chunks) for e in ch]
        events = common.split_broken(res, prop, events)
        for i, e in enumerate(events):
            e["id"] = i
            res.distinct.add(tuple(e.pop("shape")) + (e["st"],))
        if events:
            res.add_sample({k: (v if k != "pre" and k != "post" else v[:3]) for k, v in events[0].items()})
        verdicts, nval, cmd = common.validate_traces("Trace_Klatt", events, work, chunk=300)
        res.cmds.append(cmd)
        res.traces += nval
        res.evaluations += len(events)
        res.judge(events, verdicts, common.load_findings(), lambda c: c.startswith(prop + "_") or c == "UNKNOWN_OP")
        res.assumptions = ["synthetic KlattGrids in Praat's long layout only (the layout the reference file has); numbers as ranks of bit patterns"]
        res.rule = ("synthetic KlattGrid files (1-12 formants, 0-3 points per tier, with/without final newline, xmin 0 / 0.125 / 0.25) opened by the real "
                    "openKlattgrid; TLC compares the opened hierarchy, spans and points with the data the file was generated from")
        return res.finish(tier)
    finally:
        shutil.rmtree(work, ignore_errors=True)


# --------------------------------------------------------------------------- X06: PointObject.getPointsInInterval

def _po_job(job):
    items, start, workdir = job
    from praatio.data_classes import data_point
    out = []
    for i, (pts, a, b, k, scale, twoD) in enumerate(items):
        st, ret = "ok", []
        try:
            if twoD:
                po = data_point.PointObject2D([(t * scale, 100.0 + j) for j, t in enumerate(pts)], "PitchTier", 0, (max(pts) if pts else 1) * scale)
            else:
                po = data_point.PointObject1D([(t * scale,) for t in pts], "PointProcess", 0, (max(pts) if pts else 1) * scale)
            r = po.getPointsInInterval(a * scale, b * scale, k)
            ret = [int(round(x / scale)) if abs(x / scale - round(x / scale)) < 1e-6 else -9 for x in r]
        except Exception as ex:  # noqa
            st = type(ex).__name__
        out.append({"id": start + i, "fam": "pointobj", "op": "pointsInInterval", "pts": pts, "args": {"a": a, "b": b, "k": k}, "st": st, "ret": ret})
    return out


def check_pointobj(prop, tier):
    import random
    res = common.Result(prop)
    work = common.scratch()
    sz = {"quick": dict(MaxLen=4, VMax=3, rand=3000), "thorough": dict(MaxLen=6, VMax=4, rand=60000)}[tier]
    try:
        T.praatio()
        fn = os.path.join(work, "PointObj.cfg")
        common.write_cfg(fn, dict(MaxLen=sz["MaxLen"], VMax=sz["VMax"], Emit=True), invariants=["NoFail", "EmitInv"])
        r = common.run_tlc("PointObj", fn, work, workers=1, timeout=7200)
        res.add_tlc(r)
        if common.tlc_failed(r):
            sys.stderr.write(r["out"][-3000:])
            raise common.MachineryError("PointObj failed at design level")
        emitted = common.parse_json_lines(r["out"])
        res.exhaustive = True
        items = [(e["pts"], e["args"]["a"], e["args"]["b"], e["args"]["k"], sc, td) for e in emitted for (sc, td) in ((1.0, False), (0.1, True))]
        rng = random.Random(common.SEED * 53 + 1)
        for _ in range(sz["rand"]):
            pts = sorted(rng.randint(0, 30) for _k in range(rng.randint(0, 12)))
            a, b = sorted([rng.randint(0, 30), rng.randint(0, 30)]) if rng.random() < 0.9 else (rng.randint(0, 30), rng.randint(0, 30))
            items.append((pts, a, b, rng.randint(0, len(pts)), rng.choice([1.0, 0.1, 0.001]), rng.random() < 0.5))
        import multiprocessing as mp
        size = max(1, len(items) // (2 * common.NCPU) + 1)
        chunks = [(items[i:i + size], i, work) for i in range(0, len(items), size)]
        with mp.get_context("fork").Pool(common.NCPU) as pool:
            events = [e for ch in pool.map(common.Guarded(_po_job), chunks) for e in ch]
        events = common.split_broken(res, prop, events)
        for i, e in enumerate(events):
            e["id"] = i
            res.distinct.add((len(e["pts"]), len(e["ret"]), e["args"]["k"] > 0, e["args"]["a"] <= e["args"]["b"], e["st"]))
        if events:
            res.add_sample(events[0])
            res.add_sample(events[-1])
        verdicts, nval, cmd = common.validate_traces("Trace_PointObj", events, work)
        res.cmds.append(cmd)
        res.traces += nval
        res.evaluations += len(events)
        res.judge(events, verdicts, common.load_findings(), lambda c: c.startswith(prop + "_"))
        res.notes = dict(enumerated=len(emitted), random=sz["rand"])
        res.assumptions = ["point lists in time order (the scan stops at the first time beyond the interval)"]
        res.rule = ("every sorted point list up to MaxLen over 0..VMax x every interval x every start index of the TLC model (scan = selection), replayed "
                    "on PointObject1D/2D under two scalings, plus random longer lists")
        return res.finish(tier)
    finally:
        shutil.rmtree(work, ignore_errors=True)


# --------------------------------------------------------------------------- X07: the KlattGrid containers' ordered tier map (addTier, ==)

_KM_SCALES = ((0.5, 0.25), (0.0, 1.0), (0.1, 0.3))       # time = base + step * rank


def _km_build(hist, variant, upto=None):
    """Runs a history of addTier calls on a fresh real container; yields (container, child, idx, status) after each call."""
    from praatio.data_classes import klattgrid as kg
    base, step = _KM_SCALES[variant % len(_KM_SCALES)]
    inter = (variant // len(_KM_SCALES)) % 2 == 1
    cont = kg.KlattIntermediateTier("root") if inter else kg.KlattContainerTier("root")
    leaf = kg.KlattSubPointTier if inter else kg.KlattPointTier
    tm = lambda r: base + step * r
    for op in (hist if upto is None else hist[:upto]):
        c = op["child"]
        if c["lo"] == -1:
            child = kg.KlattIntermediateTier(c["name"])
        else:
            child = leaf(c["name"], [], tm(c["lo"]), tm(c["hi"]))
        st = "ok"
        try:
            if op["idx"] == 99:
                cont.addTier(child)
            else:
                cont.addTier(child, op["idx"])
        except Exception as ex:  # noqa
            st = type(ex).__name__
        yield cont, st
    return


def _km_project(cont, variant):
    base, step = _KM_SCALES[variant % len(_KM_SCALES)]

    def rk(t):
        if t is None:
            return -1
        r = (t - base) / step
        return int(round(r)) if abs(r - round(r)) < 1e-9 else -7
    return {"names": list(cont.tierNameList),
            "kids": {k: {"lo": rk(v.minTimestamp), "hi": rk(v.maxTimestamp)} for k, v in cont.tierDict.items()},
            "lo": rk(cont.minTimestamp), "hi": rk(cont.maxTimestamp)}


def _km_job(job):
    import copy
    items, start, workdir = job
    out = []
    empty = {"names": [], "kids": {}, "lo": -1, "hi": -1}
    prevs = {}                                       # per variant (class and time scaling): the container the previous history ended in
    n = 0
    for i, (hist, variant) in enumerate(items):
        prev_final, prev_proj = prevs.get(variant, (None, empty))
        pre = {"names": [], "kids": {}, "lo": -1, "hi": -1}
        snap = None
        k = 0
        cont = None
        twin = list(_km_build(hist, variant))          # the same history on fresh objects (for ==)
        for cont, st in _km_build(hist, variant):
            post = _km_project(cont, variant)
            # the twin generator yields the same (single, growing) object: compare with the twin only at the end
            ev = {"id": 0, "fam": "klattmap", "op": "addTier", "pre": pre, "child": hist[k]["child"], "idx": hist[k]["idx"], "status": st, "post": post,
                  "eqsame": True, "eqprev": (snap == cont) if snap is not None else False, "other": prev_proj,
                  "eqother": (prev_final == cont) if prev_final is not None else (prev_proj == post)}
            if snap is None:
                ev["eqprev"] = False if pre != post else True
            if k == len(hist) - 1 and twin:
                ev["eqsame"] = bool(twin[-1][0] == cont) and bool(cont == twin[-1][0])
            out.append(ev)
            n += 1
            pre = post
            snap = copy.deepcopy(cont)
            k += 1
        if cont is not None:
            prevs[variant] = (cont, _km_project(cont, variant))
    return out


def check_klattmap(prop, tier):
    import random
    res = common.Result(prop)
    work = common.scratch()
    sz = {"quick": dict(Names='{"a", "b"}', TMax=1, Depth=3, Idx="MCIdxQuick", rand=4000),
          "thorough": dict(Names='{"a", "b", "c"}', TMax=1, Depth=3, Idx="MCIdxThorough", rand=60000)}[tier]
    try:
        T.praatio()
        fn = os.path.join(work, "MC_KlattMap.cfg")
        with open(fn, "w") as f:
            f.write("CONSTANTS\n  Names = %s\n  TMax = %d\n  Depth = %d\n  Emit = TRUE\n  IdxSet <- %s\nINIT Init\nNEXT Next\n" % (sz["Names"], sz["TMax"], sz["Depth"], sz["Idx"]))
            for inv in ("WellFormedUntilRejected", "KeysSubsetOfNames", "RejectedAddLeavesACopy", "SpanInv", "EmitInv"):
                f.write("INVARIANT %s\n" % inv)
            f.write("PROPERTY OrderKept\nCHECK_DEADLOCK FALSE\n")
        r = common.run_tlc("MC_KlattMap", fn, work, workers=1, timeout=7200)
        res.add_tlc(r)
        if common.tlc_failed(r):
            sys.stderr.write(r["out"][-3000:])
            raise common.MachineryError("KlattMap failed at design level")
        hists = []
        for line in r["out"].splitlines():
            if line.startswith('"[') and line.endswith(']"'):
                hists.append(json.loads(json.loads(line)))
        if not hists:
            raise common.MachineryError("KlattMap emitted no history")
        res.exhaustive = True
        nvar = 2 * len(_KM_SCALES)
        items = [(h, i % nvar) for i, h in enumerate(hists)]
        rng = random.Random(common.SEED * 59 + 7)
        for _ in range(sz["rand"]):          # longer random histories over more names, beyond the model's bounds
            h = []
            for _k in range(rng.randint(1, 7)):
                lo = rng.choice([-1, 0, 1, 2, 3])
                hi = -1 if lo == -1 else rng.randint(lo, 4)
                h.append({"child": {"name": rng.choice("abcde"), "lo": lo, "hi": hi}, "idx": rng.choice([99, 99, 0, 1, 2, 3, -1, -2, -9, 9])})
            items.append((h, rng.randrange(nvar)))
        import multiprocessing as mp
        size = max(1, len(items) // (2 * common.NCPU) + 1)
        chunks = [(items[i:i + size], i, work) for i in range(0, len(items), size)]
        with mp.get_context("fork").Pool(common.NCPU) as pool:
            events = [e for ch in pool.map(_km_job, chunks) for e in ch]
        for i, e in enumerate(events):
            e["id"] = i
            res.distinct.add((len(e["pre"]["names"]), e["status"], e["idx"] == 99, e["child"]["lo"] == -1, e["eqother"]))
        res.add_sample(events[0])
        res.add_sample(events[-1])
        verdicts, nval, cmd = common.validate_traces("Trace_KlattMap", events, work)
        res.cmds.append(cmd)
        res.traces += nval
        res.evaluations += len(events)
        res.judge(events, verdicts, common.load_findings(), lambda c: c.startswith(prop + "_"))
        res.notes = dict(histories_from_TLC=len(hists), random_histories=sz["rand"], steps=len(events),
                         rejected_steps=sum(1 for e in events if e["status"] != "ok"), equal_pairs=sum(1 for e in events if e["eqother"]))
        res.assumptions = ["children are fresh leaf tiers without points or empty intermediate tiers (the map, not the child contents, is what is modelled)"]
        res.rule = ("every addTier history of the KlattMap machine up to Depth (TLC: well-formedness until a rejected add, span = hull, order kept) replayed on real "
                    "KlattContainerTier / KlattIntermediateTier objects under three time scalings, plus longer random histories; every real step must be the "
                    "model's step from the real state before it, and == must be equality of (names, dictionary, child spans, span)")
        return res.finish(tier)
    finally:
        shutil.rmtree(work, ignore_errors=True)


# --------------------------------------------------------------------------- X08: generatePIMeasures (composition of selection and reduction)

_PI_STEPS = (0.25, 0.05)


def _pi_job(job):
    import contextlib
    import io
    items, start, workdir = job
    from praatio import textgrid as tgm
    from praatio import pitch_and_intensity as pai
    out = []
    files = {}
    for i, c in enumerate(items):
        step = _PI_STEPS[c["variant"] % len(_PI_STEPS)]
        key = (json.dumps(c["ivs"]), c["kind"], c["variant"] % len(_PI_STEPS), c["cells"])
        st, ret = "ok", []
        try:
            if key not in files:
                span = 2 * c["cells"] * step
                if c["kind"] == "I":
                    tier = tgm.IntervalTier("words", [(iv["s"] * step, iv["e"] * step, iv["lab"]) for iv in c["ivs"]], 0, span)
                else:
                    tier = tgm.PointTier("words", [(iv["s"] * step, iv["lab"]) for iv in c["ivs"]], 0, span)
                tg = tgm.Textgrid(0, span)
                tg.addTier(tgm.IntervalTier("other", [(0, span, "zzz")], 0, span))
                tg.addTier(tier)
                fn = os.path.join(workdir, "pi-%d-%d.TextGrid" % (os.getpid(), len(files)))
                tg.save(fn, "short_textgrid" if len(files) % 2 else "long_textgrid", True)
                files[key] = fn
            data = [(d["t"] * step, float(d["f0"]), float(d["in"])) for d in c["data"]]
            with contextlib.redirect_stdout(io.StringIO()):
                r = pai.generatePIMeasures(data, files[key], "words", c["doPitch"], None if c["window"] < 0 else c["window"], c["glob"], c["loc"])
            ret = [[T_clampi(round(v * 100)) for v in row] for row in r]
        except Exception as ex:  # noqa
            st = type(ex).__name__
        out.append({"id": start + i, "fam": "pimeasures", "op": "generatePIMeasures", "data": c["data"], "ivs": c["ivs"], "kind": c["kind"], "doPitch": c["doPitch"],
                    "window": c["window"], "glob": c["glob"], "loc": c["loc"], "st": st, "ret": ret})
    for fn in files.values():
        try:
            os.remove(fn)
        except OSError:
            pass
    return out


def T_clampi(v, lim=1000000):
    return int(max(-lim, min(lim, v)))


def check_pimeasures(prop, tier):
    import random
    res = common.Result(prop)
    work = common.scratch()
    sz = {"quick": dict(Cells=3, VMax=2, MaxData=2, rand=6000), "thorough": dict(Cells=3, VMax=2, MaxData=3, rand=60000)}[tier]
    try:
        T.praatio()
        for m in ("SeriesProp",):
            pass
        fn = os.path.join(work, "PIMeasures.cfg")
        common.write_cfg(fn, dict(Cells=sz["Cells"], VMax=sz["VMax"], MaxData=sz["MaxData"], Emit=True), invariants=["BoundaryShared", "EmitInv"])
        r = common.run_tlc("PIMeasures", fn, work, workers=1, timeout=7200)
        res.add_tlc(r)
        if common.tlc_failed(r):
            sys.stderr.write(r["out"][-3000:])
            raise common.MachineryError("PIMeasures failed at design level")
        emitted = common.parse_json_lines(r["out"])
        if not emitted:
            raise common.MachineryError("PIMeasures emitted no case")
        res.exhaustive = True
        vmax = sz["VMax"]
        items = []
        for i, c in enumerate(emitted):
            items.append(dict(data=[{"t": d["t"], "f0": d["f0"], "in": (d["f0"] + 1) % (vmax + 1)} for d in c["data"]], ivs=c["ivs"], kind="I",
                              doPitch=c["doPitch"], window=c["window"], glob=False, loc=0, variant=i, cells=sz["Cells"]))
        rng = random.Random(common.SEED * 61 + 3)
        for k in range(sz["rand"]):          # longer random cases, beyond the model's bounds, plus the rejected argument combinations
            cells = rng.randint(2, 6)
            cuts = sorted(rng.sample(range(0, cells + 1), rng.randint(2, min(5, cells + 1))))
            ivs = [{"s": 2 * a, "e": 2 * b, "lab": rng.choice(["", "a", "b", "c c"])} for a, b in zip(cuts, cuts[1:]) if rng.random() < 0.8]
            n = rng.randint(0, 10)
            ts = sorted(rng.randint(0, 2 * cells) for _ in range(n))
            data = [{"t": t, "f0": rng.choice([0, 0, 1, 2, 5, 9]), "in": rng.choice([0, 1, 3, 7])} for t in ts]
            mode = rng.random()
            glob, loc, kind = False, 0, "I"
            if mode < 0.1:
                glob, loc = True, rng.choice([1, 3, 5])
            elif mode < 0.2:
                kind = "P"
            items.append(dict(data=data, ivs=ivs, kind=kind, doPitch=rng.random() < 0.5, window=rng.choice([-1, -1, 3, 5]), glob=glob, loc=loc,
                              variant=k, cells=cells))
        import multiprocessing as mp
        size = max(1, len(items) // (2 * common.NCPU) + 1)
        chunks = [(items[i:i + size], i, work) for i in range(0, len(items), size)]
        with mp.get_context("fork").Pool(common.NCPU) as pool:
            events = [e for ch in pool.map(common.Guarded(_pi_job), chunks) for e in ch]
        events = common.split_broken(res, prop, events)
        for i, e in enumerate(events):
            e["id"] = i
            res.distinct.add((len(e["data"]), len(e["ivs"]), sum(1 for iv in e["ivs"] if iv["lab"] == ""), e["doPitch"], e["window"], e["kind"], e["st"], len(e["ret"])))
        res.add_sample(events[0])
        res.add_sample(events[-1])
        verdicts, nval, cmd = common.validate_traces("Trace_PIMeasures", events, work)
        res.cmds.append(cmd)
        res.traces += nval
        res.evaluations += len(events)
        res.judge(events, verdicts, common.load_findings(), lambda c: c.startswith(prop + "_"))
        res.notes = dict(enumerated=len(emitted), random=sz["rand"], rejected=sum(1 for e in events if e["st"] != "ok"))
        res.assumptions = ["samples in time order; values small non-negative integers (the reductions on other values are C20's subject)",
                           "global / local normalisation paths other than their rejected combination are not modelled"]
        res.rule = ("every case of the PIMeasures universe (TLC: tiers of up to two intervals with blank and non-blank labels x sample lists on half cells x pitch/intensity "
                    "x median window) run on the real generatePIMeasures through a saved TextGrid file (long and short layout, dyadic and decimal scaling), plus random "
                    "longer cases, point tiers and the rejected double normalisation; rows judged with C20's pitch and rms clauses on the model's selection")
        return res.finish(tier)
    finally:
        shutil.rmtree(work, ignore_errors=True)
