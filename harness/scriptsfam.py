"""Growth family 'scripts': splitTierEntries / spellCheckEntries (spec/ScriptsImpl.tla, ScriptsProp.tla).

A label is a list of words [{"c": core symbol, "p": carries punctuation}]; times are integers on a grid 12 times finer than
the coarse grid the inputs live on, so that (end - start) / #words is a grid time for up to four words."""
import contextlib
import io
import random
from fractions import Fraction

from . import tier as T

FINE = 12
NONE = -1
NOTG = {"lo": -2, "hi": -2, "tiers": []}
PUNCT = "_,'\"!?.;"
POOLS = {
    "ascii": {"a": "cat", "b": "dog", "x": "the"},
    "uni": {"a": "été", "b": "日本", "x": "ñu"},
}
STEPS = {"dy": Fraction(1, 8), "dec": Fraction(1, 10), "ms": Fraction(1, 1000), "c7": Fraction(7, 100)}


class FineEmb:
    def __init__(self, name):
        self.name = name
        self.step = STEPS[name] / FINE
        d = STEPS[name].denominator
        self.dyadic = d & (d - 1) == 0

    def g(self, k):
        return float(self.step * k)

    def inv(self, x):
        if not isinstance(x, (int, float)) or isinstance(x, bool) or x != x or x in (float("inf"), float("-inf")):
            return -999999, False
        k = round(Fraction(x) / self.step)
        if abs(k) > 2000000000:
            return -999999, False
        gk = self.g(k)
        return k, abs(x - gk) <= 1e-9 * max(float(self.step), abs(x), abs(gk))


def word_out(w, pool, style):
    core = pool.get(w["c"], w["c"])
    if not w["p"]:
        return core
    if core == "":
        return ["?!", "...", ";", "_", "'\""][style % 5]
    return [core + ",", "'" + core + "'", "_" + core + ".", core[:1] + "_" + core[1:], core + ";", '"' + core + '"',
            core + "!", core + "?"][style % 8]


def label_out(words, pool, style):
    sep = [" ", "  ", "\t", " \t "][style % 4]
    return sep.join(word_out(w, pool, style + i) for i, w in enumerate(words))


def word_in(s, pool):
    core = "".join(ch for ch in s if ch not in PUNCT)
    rev = {v: k for k, v in pool.items()}
    return {"c": rev.get(core, "" if core == "" else "?" + core), "p": core != s}


def label_in(label, pool, sep=None):
    if not isinstance(label, str):
        return [{"c": "?nonstring", "p": False}]
    if label != label.strip():
        return [{"c": "?untrimmed", "p": False}]
    parts = label.split(sep) if label != "" else []
    return [word_in(p, pool) for p in parts]


def mk_tg(tg, emb, pool, style):
    textgrid = T.praatio()[0]
    out = textgrid.Textgrid(emb.g(tg["lo"]), emb.g(tg["hi"]))
    for t in tg["tiers"]:
        if t["kind"] == "I":
            ents = [(emb.g(x["s"]), emb.g(x["e"]), label_out(x["l"], pool, style + i)) for i, x in enumerate(t["ents"])]
            tier = textgrid.IntervalTier(t["name"], ents, emb.g(t["lo"]), emb.g(t["hi"]))
        else:
            ents = [(emb.g(x["t"]), label_out(x["l"], pool, style + i)) for i, x in enumerate(t["ents"])]
            tier = textgrid.PointTier(t["name"], ents, emb.g(t["lo"]), emb.g(t["hi"]))
        out.addTier(tier, reportingMode="silence")
    return out


class Proj:
    def __init__(self, emb, pool):
        self.emb, self.pool, self.offgrid = emb, pool, 0

    def t(self, x):
        k, ok = self.emb.inv(x)
        if not ok:
            self.offgrid += 1
        return k

    def tg(self, tg, sep=None, septier=None):
        textgrid = T.praatio()[0]
        if tg is None or not isinstance(tg, textgrid.Textgrid):
            return NOTG
        tiers = []
        for t in tg.tiers:
            sp = sep if t.name == septier else None
            if isinstance(t, textgrid.IntervalTier):
                ents = [{"s": self.t(e[0]), "e": self.t(e[1]), "l": label_in(e[2], self.pool, sp)} for e in t.entries]
                kind = "I"
            else:
                ents = [{"t": self.t(e[0]), "l": label_in(e[1], self.pool, sp)} for e in t.entries]
                kind = "P"
            tiers.append({"kind": kind, "name": t.name, "lo": self.t(t.minTimestamp), "hi": self.t(t.maxTimestamp), "ents": ents})
        return {"lo": self.t(tg.minTimestamp), "hi": self.t(tg.maxTimestamp), "tiers": tiers}


def run_vector(vec, emb, poolname, eid, style=0):
    from praatio import praatio_scripts
    pool = POOLS[poolname]
    pj = Proj(emb, pool)
    op, a = vec["op"], vec["args"]
    tg = mk_tg(vec["pre"], emb, pool, style)
    pre = pj.tg(tg)
    st, ret = "ok", None
    rev = {v: k for k, v in pool.items()}
    calls = []
    try:
        with contextlib.redirect_stdout(io.StringIO()), contextlib.redirect_stderr(io.StringIO()):
            if op == "split":
                kw = {}
                if a["a"] != NONE:
                    kw["startT"] = emb.g(a["a"])
                if a["b"] != NONE:
                    kw["endT"] = emb.g(a["b"])
                ret = praatio_scripts.splitTierEntries(tg, a["src"], a["dst"], **kw)
            elif op == "spell":
                bad = set(a["bad"])

                def check(word):
                    calls.append(word)
                    return rev.get(word, "?") not in bad
                ret = praatio_scripts.spellCheckEntries(tg, a["src"], a["dst"], check, printEntries=bool(style % 2))
    except Exception as ex:  # noqa
        st = type(ex).__name__
        ret = None
    # three-word labels divide inexactly even on a dyadic grid
    three = any(len(x["l"]) == 3 for t in vec["pre"]["tiers"] if t["name"] == a["src"] for x in t["ents"])
    ev = {"id": eid, "fam": "scripts", "op": op, "args": a, "pre": pre, "st": st,
          "ret": pj.tg(ret, sep=", " if op == "spell" else None, septier=a["dst"] if op == "spell" else None),
          "post": pj.tg(tg), "same": ret is tg, "exactfp": bool(emb.dyadic and not three), "emb": emb.name, "offgrid": pj.offgrid}
    if pre != vec["pre"]:
        ev["broken_input"] = True
    return ev


# --------------------------------------------------------------------------- random vectors beyond TLC's universe

WORDS = [{"c": "a", "p": False}, {"c": "b", "p": True}, {"c": "x", "p": False}, {"c": "a", "p": True}, {"c": "", "p": True},
         {"c": "b", "p": False}]


def rand_label(rng, allow_blank=True):
    n = rng.choice([0, 1, 1, 2, 2, 3, 4] if allow_blank else [1, 1, 2, 2, 3, 4])
    return [dict(rng.choice(WORDS)) for _ in range(n)]


def rand_itier(rng, name, hi, maxn, blank_ok=True):
    n = rng.randint(0, maxn)
    pts = sorted(rng.sample(range(0, hi + 1), min(2 * n, hi + 1) // 2 * 2))
    ents, i = [], 0
    while i + 1 < len(pts):
        ents.append({"s": pts[i] * FINE, "e": pts[i + 1] * FINE, "l": rand_label(rng, blank_ok)})
        i += 1 if rng.random() < 0.45 else 2          # adjacent entries are frequent
    return {"kind": "I", "name": name, "lo": 0, "hi": hi * FINE, "ents": ents}


def rand_vectors(n, seed):
    rng = random.Random(seed * 7919 + 17)
    out = []
    for _ in range(n):
        hi = rng.choice([6, 12, 30])
        tiers = [rand_itier(rng, "s", hi, 5, blank_ok=rng.random() < 0.3)]
        if rng.random() < 0.5:
            tiers.insert(rng.randint(0, len(tiers)), {"kind": "P", "name": "o", "lo": 0, "hi": hi * FINE,
                                                       "ents": [{"t": k * FINE, "l": rand_label(rng, False)} for k in sorted(rng.sample(range(0, hi + 1), rng.randint(0, 3)))]})
        if rng.random() < 0.5:
            tiers.insert(rng.randint(0, len(tiers)), rand_itier(rng, "d", hi, 4, blank_ok=False))
        if rng.random() < 0.03:
            tiers = [t for t in tiers if t["name"] != "s"]
        tg = {"lo": 0, "hi": hi * FINE, "tiers": tiers}
        if rng.random() < 0.6:
            cuts = [NONE] + [k * FINE for k in range(0, hi + 1)]
            src = [t for t in tiers if t["name"] == "s"]
            near = [x[k] for t in src for x in t["ents"] for k in ("s", "e")]
            pick = lambda: rng.choice(near) if near and rng.random() < 0.5 else rng.choice(cuts)
            a, b = pick(), pick()
            if a != NONE and b != NONE and a > b and rng.random() < 0.9:
                a, b = b, a
            if rng.random() < 0.5:
                a = b = NONE
            out.append({"op": "split", "pre": tg, "args": {"src": "s", "dst": rng.choice(["d", "n"]), "a": a, "b": b}})
        else:
            bad = sorted(rng.sample(["a", "b", "x"], rng.randint(0, 3)))
            out.append({"op": "spell", "pre": tg, "args": {"src": "s", "dst": rng.choice(["n", "n", "d", "o"]), "bad": bad}})
    return out
