"""Checks of the file family: C01 (round trip), C02 (written files well-formed, formats agree),
C03 (reader returns what a conformant file encodes), C04 (saving adds only blanks, absorbs only slivers)."""
import contextlib
import io
import json
import os
import random
import shutil
import sys
from concurrent.futures import ThreadPoolExecutor

from . import common
from . import tier as T
from . import filefam as F

SIZES = {
    "quick": dict(LabLen=2, prepN=5, prepK=2, rand=500, c04rand=1500, c03variants=2, c01rand=300),
    "thorough": dict(LabLen=3, prepN=6, prepK=3, rand=12000, c04rand=40000, c03variants=8, c01rand=8000),
}
FILE_INVS = ["DecodeIsInverse", "NoFail", "ReaderRulesOK", "EmitInv"]


def run_mc(mode, sz, work, res, emit=True):
    nsl = common.NCPU if mode == "prep" else 4
    jobs = []
    for sl in range(nsl):
        c = dict(Mode=mode, LabLen=sz["LabLen"], N=sz["prepN"], K=sz["prepK"], Emit=emit, Slice=sl, NSlices=nsl)
        fn = os.path.join(work, "MC_File_%s_%d.cfg" % (mode, sl))
        common.write_cfg(fn, c, invariants=FILE_INVS)
        jobs.append(fn)
    outs, fail = [], []
    with ThreadPoolExecutor(max_workers=common.NCPU) as ex:
        for r in ex.map(lambda fn: common.run_tlc("MC_File", fn, work, workers=1, timeout=7200), jobs):
            res.add_tlc(r)
            if common.tlc_failed(r):
                fail.append(r["out"][-3000:])
            outs.extend(common.parse_json_lines(r["out"]))
    if fail:
        sys.stderr.write(fail[0])
        raise common.MachineryError("MC_File (%s) failed at design level" % mode)
    return outs


# --------------------------------------------------------------------------- building Textgrids

def tg_from_content(doc, lpool, npool):
    """TLC document in Content form (numbers are ids, labels [cls, payload]) -> praatio Textgrid"""
    textgrid = T.praatio()[0]
    tg = textgrid.Textgrid(npool[doc["lo"]], npool[doc["hi"]])
    for t in doc["tiers"]:
        name = F.conc_label(t["name"], lpool)
        if t["kind"] == "I":
            ents = [(npool[e["s"]], npool[e["e"]], F.conc_label(e["l"], lpool)) for e in t["ents"]]
            tier = textgrid.IntervalTier(name, ents, npool[t["lo"]], npool[t["hi"]])
        else:
            ents = [(npool[e["t"]], F.conc_label(e["l"], lpool)) for e in t["ents"]]
            tier = textgrid.PointTier(name, ents, npool[t["lo"]], npool[t["hi"]])
        if name in tg.tierNames:
            return None
        tg.addTier(tier, reportingMode="silence")
    return tg


TIME_POOL = [0.0, 1e-17, 5e-05, 9.999999999999999e-05, 0.001, 0.1, 0.2, 0.30000000000000004, 1.0 / 3.0, 0.5,
             0.9999999999999999, 1.0, 1.000000000000001, 1.0000000001, 1.25, 2.0, 2.0000000001, 3.14159, 7.0,
             12.3456789012345, 100.0, 123456789.125, 1e9, 999999999.9999999, 1e15, 2.0 ** 53]
LABEL_ATOMS = ["a", "b c", '"', '""', "\n", "=", "7", "é", "日本", "\U0001F600", "item [2]:", "intervals [1]:",
               '"IntervalTier"', '"TextTier"', 'text = "x"', "ooTextFile short", "!", "<exists>", "xmin = 0", "", "x\ny",
               "points [1]:", "class = \"IntervalTier\"", "1.5", "-0"]


PLAIN_ATOMS = ["a", "b c", '"', '""', "\n", "=", "7", "é", "日本", "\U0001F600", "!", "x\ny", "1.5", "-0", "", "<x>", "%", "e5"]


def rand_label(rng, keywords=True):
    n = rng.choice([0, 1, 1, 1, 2, 3])
    atoms = LABEL_ATOMS if keywords else PLAIN_ATOMS
    s = "".join(rng.choice(atoms) + rng.choice(["", " ", ""]) for _ in range(n))
    return s.strip()


def rand_name(rng, used, keywords=True):
    while True:
        pool = ["n", "Mary", "tier 1", 'say "x"', "é日本", "points", "a=b"]
        if keywords:
            pool += ["item [2]:", '"IntervalTier"', "ooTextFile short"]
        s = rng.choice(pool) + rng.choice(["", "", "_2", "1"])
        if s not in used:
            used.add(s)
            return s


def rand_textgrid(rng, own_spans=False, sliver_free=True, keywords=True):
    """a well-formed Textgrid with awkward labels/names and times from all the number classes"""
    textgrid = T.praatio()[0]
    k = rng.randint(2, 9)
    times = sorted(set(rng.sample(TIME_POOL, k)))
    if sliver_free:
        keep = []
        for t in times:
            if not keep or t - keep[-1] >= 1e-6:
                keep.append(t)
        times = keep
    # the statement lets a value within 1e-14 of an integer come back as that integer: two timestamps of one textgrid
    # must stay distinct under that allowance (else an interval would collapse / two points would coincide)
    keep, taken = [], set()
    for t in times:
        snaps = {F.fkey(t)} | {F.fkey(n) for n in F.near_ints(t)}
        if snaps & taken:
            continue
        taken |= snaps
        keep.append(t)
    times = keep
    if len(times) < 2:
        times = [0.0, 1.0]
    lo = 0.0 if rng.random() < 0.6 else times[0]
    if sliver_free and 0 < times[0] - lo < 1e-6:
        lo = times[0]
    hi = times[-1] if rng.random() < 0.6 else times[-1] * 2 + 1.0
    tg = textgrid.Textgrid(lo, hi)
    used = set()
    for _ in range(rng.randint(1, 3)):
        name = rand_name(rng, used, keywords)
        if rng.random() < 0.65:
            ents = []
            i = 0
            while i + 1 < len(times):
                if rng.random() < 0.7:
                    ents.append((times[i], times[i + 1], rand_label(rng, keywords)))
                i += 1
            tlo, thi = lo, hi
            if own_spans and ents and rng.random() < 0.5:
                tlo, thi = ents[0][0], ents[-1][1]
            tier = textgrid.IntervalTier(name, ents, tlo, thi)
        else:
            pts = [(t, rand_label(rng, keywords)) for t in times if rng.random() < 0.5]
            tlo, thi = lo, hi
            if own_spans and pts and rng.random() < 0.5:
                tlo, thi = pts[0][0], pts[-1][0]
            tier = textgrid.PointTier(name, pts, tlo, thi)
        tg.addTier(tier, reportingMode="silence")
    return tg


# --------------------------------------------------------------------------- C02

def _c02_job(job):
    kind, payload, start, workdir = job
    out = []
    eid = start
    for item in payload:
        if kind == "tlc":
            doc, lp, np_ = item
            tg = tg_from_content(doc, F.LABEL_POOLS[lp], F.NUMBER_POOLS[np_])
            if tg is None:
                continue
            # the 'tiny' pool has a 1e-17 gap at the start: a sliver, which blank filling absorbs (C04's subject)
            variants = [(False, None, None)] if np_ == "tiny" else [(True, None, None), (False, None, None)]
            feats = {"src": "tlc", "lpool": lp, "npool": np_}
        else:
            seed = item
            rng = random.Random(seed)
            blanks = rng.random() < 0.6
            tg = rand_textgrid(rng, own_spans=not blanks or rng.random() < 0.3, sliver_free=blanks)
            lo = hi = None
            r = rng.random()
            if r < 0.2:
                lo = tg.minTimestamp
            elif r < 0.3 and tg.minTimestamp >= 1e-6:
                lo = 0.0
            r = rng.random()
            if r < 0.2:
                hi = tg.maxTimestamp
            elif r < 0.35:
                hi = tg.maxTimestamp + 1.5
            elif r < 0.5:
                # an override that SHRINKS the span while still enclosing every entry (midway between the last entry's end
                # and the textgrid's end; far more than the sliver threshold away from both)
                ends = [e[-2] for t in tg.tiers for e in t.entries]
                last = max(ends) if ends else tg.minTimestamp
                if tg.maxTimestamp - last > 1e-3:
                    hi = (last + tg.maxTimestamp) / 2.0
            variants = [(blanks, lo, hi)]
            feats = {"src": "rand", "seed": seed}
        for blanks, lo, hi in variants:
            ev, _ = F.save_event(tg, eid, blanks, lo, hi, use_t=True, workdir=workdir, features=feats)
            out.append(ev)
            eid += 1
    return out


def parallel(fn, jobs):
    import multiprocessing as mp
    if not jobs:
        return []
    with mp.get_context("fork").Pool(common.NCPU) as pool:
        res = pool.map(fn, jobs)
    return [e for ch in res for e in ch]


def renumber(events):
    for i, e in enumerate(events):
        e["id"] = i
    return events


def distinct_docs(emitted):
    seen, out = set(), []
    for e in emitted:
        if e.get("op") != "save":
            continue
        k = json.dumps(e["doc"], sort_keys=True)
        if k not in seen:
            seen.add(k)
            out.append(e["doc"])
    return out


def chunks(lst, n):
    size = max(1, len(lst) // n + 1)
    return [lst[i:i + size] for i in range(0, len(lst), size)]


def finish_file_check(res, prop, tier, events, work, prefixes, findings, rule):
    events = renumber(common.split_broken(res, prop, events))
    verdicts, nval, cmd = common.validate_traces("Trace_File", events, work, chunk=400)
    res.cmds.append(cmd)
    res.traces += nval
    res.evaluations += len(events)
    rel = lambda c: any(c.startswith(p) for p in prefixes) or c == "UNKNOWN_OP"
    res.judge(events, verdicts, findings, rel)
    res.rule = rule
    return res.finish(tier)


def all_slivers(v):
    """every interval of the blank-filled tier is below the threshold: nothing of positive length can be written that is not
    a sliver, so 'partition of the file span' (C02) and 'no written interval below the threshold' (C04) cannot both hold"""
    if not v["useT"]:
        return False
    lo = v["lo"] if v["lo"] is not None else 0
    hi = v["hi"] if v["hi"] is not None else v["N"]
    cuts = sorted(set([lo, hi] + [x["s"] for x in v["ents"]] + [x["e"] for x in v["ents"]]))
    cuts = [c for c in cuts if lo <= c <= hi]
    return all(2 * (b - a) < v["T2"] for a, b in zip(cuts, cuts[1:]))


def check_c02(prop, tier):
    res = common.Result(prop)
    work = common.scratch()
    sz = SIZES[tier]
    try:
        T.praatio()
        emitted = run_mc("format", sz, work, res)
        res.exhaustive = True
        docs = distinct_docs(emitted)
        plans = [("ascii", "plain"), ("uni", "nearint"), ("emoji", "tiny"), ("ascii", "thresh")] + ([("uni", "ints"), ("ascii", "dyadic")] if tier == "thorough" else [])
        jobs = []
        start = 0
        for lp, np_ in plans:
            for ch in chunks([(d, lp, np_) for d in docs], common.NCPU):
                jobs.append(("tlc", ch, start, work))
                start += 2 * len(ch)
        seeds = [common.SEED * 1000003 + i for i in range(sz["rand"])]
        for ch in chunks(seeds, common.NCPU):
            jobs.append(("rand", ch, start, work))
            start += len(ch)
        events = parallel(common.Guarded(_c02_job, 1), jobs)
        # tiers with slivers (on an exact grid): the written file must still be a partition of the file's span
        # (a file span shorter than the threshold cannot be both a partition and free of sub-threshold intervals: left out)
        sv = [v for v in c04_random_vectors(sz["c04rand"] // 3, common.SEED + 1) if v["blanks"] and not all_slivers(v)]
        events += parallel(common.Guarded(_c04_job), [(ch, 0, work) for ch in chunks(sv, common.NCPU)])
        events = renumber(common.split_broken(res, prop, events))
        for ev in events:
            if ev["st"] == "ok" and ev["mem"]["tiers"]:
                res.distinct.add((ev["args"]["blanks"], ev["args"]["haslo"], ev["args"]["hashi"], len(ev["mem"]["tiers"]),
                                  tuple(t["kind"] for t in ev["mem"]["tiers"]), tuple(len(t["ents"]) for t in ev["mem"]["tiers"]),
                                  json.dumps(ev["features"], sort_keys=True)[:40]))
        if events:
            e0 = events[0]
            res.add_sample({"args": e0["args"], "mem": e0["mem"], "short_text_len": len(e0["texts"]["short"]), "features": e0["features"]})
        res.notes = dict(tlc_documents=len(docs), plans=plans, random_documents=len(seeds))
        res.assumptions = [
            "Praat itself is not available: 'well-formed' is judged against the formalisation of the manual's rule in spec/PraatText.tla",
            "JSON lexing is Python's json module; the README schemas are checked structurally by harness/filefam.doc_of_json",
            "numbers are compared as ranks of the bit patterns of all floats of one event (harness/filefam.RankTable)"]
        return finish_file_check(res, prop, tier, events, work, ["C02_"], common.load_findings(),
                                 "every document of the TLC format universe (labels over quotes/newlines/keywords, all number "
                                 "spellings) concretized with label and number pools, and random textgrids with keyword-like labels, "
                                 "are saved by the real Textgrid.save in all four formats (blanks on/off, optional overrides); TLC lexes "
                                 "and parses the written text and compares it with the in-memory document; distinct = distinct "
                                 "(options, tier shapes, source) classes")
    finally:
        shutil.rmtree(work, ignore_errors=True)


# --------------------------------------------------------------------------- C04

UNITS = [("2^-28", 2.0 ** -28, 0.0), ("2^-28+1", 2.0 ** -28, 1.0), ("2^-5", 2.0 ** -5, 0.0)]


def _c04_job(job):
    vecs, start, workdir = job
    textgrid = T.praatio()[0]
    out = []
    for i, v in enumerate(vecs):
        grid = F.GridTable(v["unit"], v["base"])
        g = grid.g
        N = v["N"]
        ents = [(g(x["s"]), g(x["e"]), "a" if x["l"] == "a" else "b") for x in v["ents"]]
        tg = textgrid.Textgrid(g(0), g(N))
        tg.addTier(textgrid.IntervalTier("t", ents, g(0), g(N)), reportingMode="silence")
        if v.get("points"):
            tg.addTier(textgrid.PointTier("p", [(g(t), "m") for t in v["points"]], g(0), g(N)), reportingMode="silence")
        lo = None if v["lo"] is None else g(v["lo"])
        hi = None if v["hi"] is None else g(v["hi"])
        thr = None
        if v["useT"] and not v.get("default_threshold"):
            thr = float(v["T2"]) * v["unit"] / 2.0
        ev, _ = F.save_event(tg, start + i, v["blanks"], lo, hi, use_t=v["useT"], threshold=thr, grid=grid, workdir=workdir,
                             features=v.get("features", {}))
        ev["args"]["T2"] = v["T2"]
        out.append(ev)
    return out


def c04_vectors_from_tlc(emitted, N, nunits=2):
    out = []
    for e in emitted:
        if e.get("op") != "prep":
            continue
        a = e["args"]
        ents = [{"s": x["s"], "e": x["e"], "l": x["l"][0][1]} for x in e["pre"]]
        for name, unit, base in UNITS[:nunits]:
            out.append(dict(unit=unit, base=base, N=N, ents=ents, lo=None if a["lo"] == 0 else a["lo"],
                            hi=None if a["hi"] == N else a["hi"], blanks=a["blanks"], useT=a["useT"], T2=a["T2"],
                            features={"src": "tlc", "unit": name}))
    return out


def c04_random_vectors(n, seed):
    rng = random.Random(seed * 9176 + 3)
    out = []
    for _ in range(n):
        N = 40
        r = rng.random()
        if r < 0.5:
            unit, base, T2, dflt, uname = 4e-9, 0.0, 5, True, "4e-9/default"        # default threshold 1e-8 = 2.5 units
        elif r < 0.8:
            unit, base, T2, dflt, uname = 2.0 ** -28, rng.choice([0.0, 1.0, 64.0]), rng.choice([3, 4, 6, 9]), False, "2^-28"
        else:
            unit, base, T2, dflt, uname = 0.04, 0.0, 3, False, "0.04"                   # threshold 0.06 = 1.5 units: no exact ties
        pts = sorted(rng.sample(range(0, N + 1), rng.randint(0, 12)))
        ents, i = [], 0
        while i + 1 < len(pts):
            # short and long intervals, touching or with gaps (gaps may be slivers too)
            ents.append({"s": pts[i], "e": pts[i + 1], "l": rng.choice("ab")})
            i += 1 if rng.random() < 0.5 else 2
        first = ents[0]["s"] if ents else 0
        last = ents[-1]["e"] if ents else N
        lo = rng.choice([None, None, 0, first, max(0, first - 1), first + 1])
        hi = rng.choice([None, None, N, last, min(N, last + 1), last - 1, N + 3])
        useT = rng.random() < 0.75
        points = sorted(rng.sample(range(0, N + 1), rng.randint(0, 3))) if rng.random() < 0.4 else []
        out.append(dict(unit=unit, base=base, N=N, ents=ents, lo=lo, hi=hi, blanks=rng.random() < 0.8, useT=useT,
                        T2=T2 if useT else 0, default_threshold=dflt, points=points,
                        features={"src": "rand", "unit": uname, "points": bool(points)}))
    return out


def check_c04(prop, tier):
    res = common.Result(prop)
    work = common.scratch()
    sz = SIZES[tier]
    try:
        T.praatio()
        emitted = run_mc("prep", sz, work, res)
        res.exhaustive = True
        vecs = c04_vectors_from_tlc(emitted, sz["prepN"], 1 if tier == "quick" else 2)
        vecs += c04_random_vectors(sz["c04rand"], common.SEED)
        jobs, start = [], 0
        for ch in chunks(vecs, common.NCPU * 2):
            jobs.append((ch, start, work))
            start += len(ch)
        events = renumber(common.split_broken(res, prop, parallel(common.Guarded(_c04_job), jobs)))
        for ev in events:
            if ev["mem"]["tiers"] and ev["mem"]["tiers"][0]["ents"]:
                a = ev["args"]
                res.distinct.add((a["blanks"], a["haslo"], a["hashi"], a["useT"], a["T2"], ev["st"], len(ev["mem"]["tiers"][0]["ents"]),
                                  ev["features"].get("unit")))
        if events:
            e0 = events[len(events) // 2]
            res.add_sample({"args": e0["args"], "mem": e0["mem"], "st": e0["st"], "features": e0["features"]})
        res.notes = dict(tlc_prep_transitions=len([e for e in emitted if e.get("op") == "prep"]), vectors=len(vecs))
        res.assumptions = ["times are exact multiples of a dyadic unit (or far from the threshold for the default 1e-8), so interval lengths "
                           "compare exactly with the threshold", "the written file is read by the TLA+ lexer/parser, not by praatio"]
        return finish_file_check(res, prop, tier, events, work, ["C04_"], common.load_findings(),
                                 "every (interval tier, span override, blanks, threshold) of the TLC prep universe and random tiers mixing "
                                 "ordinary intervals, gaps and slivers around the threshold are saved by the real Textgrid.save in all four "
                                 "formats; TLC decodes the files and judges the sliver relation; distinct = (options, threshold, status, "
                                 "entry count, unit) classes")
    finally:
        shutil.rmtree(work, ignore_errors=True)


# --------------------------------------------------------------------------- C03

ENCODINGS = [("utf-8", False), ("utf-8-sig", False), ("utf-16-le", True), ("utf-16-be", True)]


def encode_text(text, enc, bom):
    if enc == "utf-16-le":
        return b"\xff\xfe" + text.encode("utf-16-le")
    if enc == "utf-16-be":
        return b"\xfe\xff" + text.encode("utf-16-be")
    return text.encode(enc)


def json_of_doc(doc, layout, npool):
    """structural JSON for both README schemas, written from the abstract document"""
    def num(i):
        v = npool[i]
        return int(v) if float(v).is_integer() and abs(v) < 2 ** 53 and (i % 2 == 0) else v

    def ents(t):
        if t["kind"] == "I":
            return [[num(e["s"]), num(e["e"]), F.conc_label(e["l"], {})] for e in t["ents"]]
        return [[num(e["t"]), F.conc_label(e["l"], {})] for e in t["ents"]]
    klass = {"I": "IntervalTier", "P": "TextTier"}
    if layout == "json":
        names = [F.conc_label(t["name"], {}) for t in doc["tiers"]]
        if len(set(names)) != len(names):
            return None                       # an object cannot hold duplicate keys
        d = {"start": num(doc["lo"]), "end": num(doc["hi"]),
             "tiers": {F.conc_label(t["name"], {}): {"type": klass[t["kind"]], "entries": ents(t)} for t in doc["tiers"]}}
    else:
        d = {"xmin": num(doc["lo"]), "xmax": num(doc["hi"]),
             "tiers": [{"class": klass[t["kind"]], "name": F.conc_label(t["name"], {}), "xmin": num(t["lo"]), "xmax": num(t["hi"]),
                        "entries": ents(t)} for t in doc["tiers"]]}
    return json.dumps(d, ensure_ascii=False, indent=rng_indent(doc))


def rng_indent(doc):
    return None if len(doc["tiers"]) % 2 else 1


def res_doc(tg, idof):
    textgrid = T.praatio()[0]
    tiers = []
    for t in tg.tiers:
        if isinstance(t, textgrid.IntervalTier):
            ents = [{"s": idof(e[0]), "e": idof(e[1]), "l": F.abs_label(e[2])} for e in t.entries]
            kind = "I"
        else:
            ents = [{"t": idof(e[0]), "l": F.abs_label(e[1])} for e in t.entries]
            kind = "P"
        tiers.append({"kind": kind, "name": F.abs_label(t.name), "lo": idof(t.minTimestamp), "hi": idof(t.maxTimestamp), "ents": ents})
    return {"lo": idof(tg.minTimestamp), "hi": idof(tg.maxTimestamp), "tiers": tiers}


EMPTY_RES = {"lo": -5, "hi": -5, "tiers": []}


def doc_features(doc, layout):
    strs = [F.conc_label(t["name"], {}) for t in doc["tiers"]]
    for t in doc["tiers"]:
        strs += [F.conc_label(e["l"], {}) for e in t["ents"]]
    f = F.derail_features(strs, layout)
    f["layout"] = layout
    return f


def _c03_job(job):
    items, start, workdir = job
    textgrid = T.praatio()[0]
    errors = T.praatio()[1]
    out = []
    eid = start
    for doc, layout, text, npname, enc, bom, crlf, incl, dup in items:
        npool = F.NUMBER_POOLS[npname]
        if layout in ("json", "tgjson"):
            s = json_of_doc(doc, layout, npool)
            if s is None:
                continue
        else:
            s = F.conc_text(text, npool)
        if crlf:
            s = s.replace("\n", "\r\n")
        fn = os.path.join(workdir, "in-%d-%d.TextGrid" % (os.getpid(), eid))
        with open(fn, "wb") as f:
            f.write(encode_text(s, enc, bom))
        ids = {F.fkey(v): i for i, v in npool.items()}
        unknown = {}

        def idof(x):
            k = F.fkey(x)
            if k in ids:
                return ids[k]
            return unknown.setdefault(k, 1000 + len(unknown))
        st, pe, res = "ok", False, EMPTY_RES
        try:
            with contextlib.redirect_stdout(io.StringIO()):
                # a conformant file opens in every reporting mode (nothing to report: its tiers lie inside its span)
                tg = textgrid.openTextgrid(fn, incl, reportingMode=("silence", "warning", "error")[eid % 3], duplicateNamesMode=dup)
            res = res_doc(tg, idof)
        except Exception as ex:  # noqa
            st = type(ex).__name__
            pe = isinstance(ex, errors.PraatioException)
        finally:
            os.remove(fn)
        feats = doc_features(doc, layout)
        feats.update({"enc": enc, "crlf": crlf, "npool": npname})
        out.append({"id": eid, "fam": "file", "op": "open", "doc": doc, "layout": "json" if layout == "json" else layout,
                    "args": {"inclEmpty": incl, "dup": dup}, "st": st, "pe": pe, "res": res, "features": feats,
                    "file_text": s if len(s) < 1500 else s[:1500]})
        eid += 1
    return out


def check_c03(prop, tier):
    res = common.Result(prop)
    work = common.scratch()
    sz = SIZES[tier]
    try:
        T.praatio()
        emitted = [e for e in run_mc("format", sz, work, res) if e.get("op") == "save"]
        res.exhaustive = True
        rng = random.Random(common.SEED * 77 + 1)
        items = []
        pools = list(F.NUMBER_POOLS)
        docs = distinct_docs(emitted)
        import hashlib
        for e in emitted:
            for v in range(sz["c03variants"]):
                # pool and options are a function of (document content, variant), so that all layouts and spellings of one
                # document are opened with the same options and can be compared with each other
                h = int(hashlib.sha1((json.dumps(e["doc"], sort_keys=True) + str(v) + str(common.SEED)).encode()).hexdigest(), 16)
                enc, bom = ENCODINGS[rng.randrange(4)] if v else ENCODINGS[0]
                items.append((e["doc"], e["layout"], e["text"], pools[h % len(pools)] if v else "plain",
                              enc, bom, rng.random() < 0.4 if v else False, bool((h >> 8) & 1), ["error", "rename"][(h >> 9) & 1]))
        for d in docs:
            for layout in ("json", "tgjson"):
                for v in range(sz["c03variants"]):
                    enc, bom = ENCODINGS[rng.randrange(4)] if v else ENCODINGS[0]
                    items.append((d, layout, None, rng.choice(pools), enc, bom, False, rng.random() < 0.5, rng.choice(["error", "rename"])))
        jobs, start = [], 0
        for ch in chunks(items, common.NCPU * 2):
            jobs.append((ch, start, work))
            start += len(ch)
        events = common.split_broken(res, prop, parallel(common.Guarded(_c03_job), jobs))
        groups = {}
        for ev in events:
            if ev["layout"] in ("short", "long", "elan"):
                k = (json.dumps(ev["doc"], sort_keys=True), ev["features"]["npool"], ev["args"]["inclEmpty"], ev["args"]["dup"])
                groups.setdefault(k, []).append(ev)
        for k, g in groups.items():
            if len(g) > 1 and not any(x["features"]["derails_reader"] for x in g):
                events.append({"id": 0, "fam": "file", "op": "agree", "results": [{"st": x["st"], "res": x["res"]} for x in g[:6]],
                               "layouts": [x["layout"] for x in g[:6]], "doc": g[0]["doc"], "args": g[0]["args"], "st": "ok",
                               "layout": "agree", "features": dict(g[0]["features"], layout="agree"), "file_text": ""})
        events = renumber(events)
        for ev in events:
            f = ev["features"]
            res.distinct.add((f["layout"], f["enc"], f["crlf"], f["npool"], ev["args"]["inclEmpty"], ev["args"]["dup"], ev["st"],
                              len(ev["doc"]["tiers"]), f["derails_reader"]))
        if events:
            e0 = events[0]
            res.add_sample({"layout": e0["layout"], "args": e0["args"], "file_text": e0["file_text"][:400], "st": e0["st"], "res": e0["res"]})
        for ev in events:
            ev.pop("file_text", None)
        res.notes = dict(encoded_files_from_tlc=len(emitted), documents=len(docs), files_opened=len(events))
        res.assumptions = ["the files are produced by the specification's writers (EncShort/EncLong in Praat and ELAN style, evaluated by TLC) and a "
                           "structural JSON writer; Praat itself is not available",
                           "numbers are identified bit for bit through the concretization's own id -> float table"]
        return finish_file_check(res, prop, tier, events, work, ["C03_"], common.load_findings(),
                                 "every file TLC's specification writers encode for the document universe (short, long, ELAN-long) and both JSON "
                                 "schemas, concretized with number pools/spellings, 4 encodings and LF/CRLF, is opened by the real openTextgrid with "
                                 "both includeEmptyIntervals values and both duplicate-name modes; TLC compares the result with the document the "
                                 "file encodes; distinct = (layout, encoding, newline, pool, flags, status, #tiers) classes")
    finally:
        shutil.rmtree(work, ignore_errors=True)


# --------------------------------------------------------------------------- C01

def _c01_job(job):
    kind, payload, start, workdir = job
    textgrid, errors, _ = T.praatio()
    out = []
    eid = start
    for item in payload:
        if kind == "tlc":
            doc, lp, np_ = item
            tg = tg_from_content(doc, F.LABEL_POOLS[lp], F.NUMBER_POOLS[np_])
            if tg is None:
                continue
            combos = [(fmt, b, ie) for fmt in F.FORMATS for b in ((False,) if np_ == "tiny" else (True, False)) for ie in (True, False)]
            feats = {"src": "tlc", "lpool": lp, "npool": np_}
            tgs = {True: tg, False: tg}
        else:
            seed = item
            rng = random.Random(seed)
            tgs = {True: rand_textgrid(rng, own_spans=rng.random() < 0.3, sliver_free=True, keywords=False),
                   False: rand_textgrid(rng, own_spans=rng.random() < 0.5, sliver_free=False, keywords=False)}
            combos = [(rng.choice(F.FORMATS), b, rng.random() < 0.5) for b in (True, False)]
            feats = {"src": "rand", "seed": seed}
        for fmt, blanks, incl in combos:
            tg0 = tgs[blanks]
            fn1 = os.path.join(workdir, "rt1-%d-%d" % (os.getpid(), eid))
            fn2 = os.path.join(workdir, "rt2-%d-%d" % (os.getpid(), eid))
            st1 = st2 = st3 = "ok"
            t1 = t2 = None
            tg2 = None
            try:
                with contextlib.redirect_stdout(io.StringIO()):
                    tg0.save(fn1, fmt, blanks, reportingMode="silence")
                t1 = open(fn1, "rb").read()
            except Exception as ex:  # noqa
                st1 = type(ex).__name__
            if st1 == "ok":
                try:
                    with contextlib.redirect_stdout(io.StringIO()):
                        tg2 = textgrid.openTextgrid(fn1, incl, reportingMode="silence")
                except Exception as ex:  # noqa
                    st2 = type(ex).__name__
            else:
                st2 = "skipped"
            if tg2 is not None:
                try:
                    with contextlib.redirect_stdout(io.StringIO()):
                        tg2.save(fn2, fmt, blanks, reportingMode="silence")
                    t2 = open(fn2, "rb").read()
                except Exception as ex:  # noqa
                    st3 = type(ex).__name__
            else:
                st3 = "skipped"
            for fn in (fn1, fn2):
                if os.path.exists(fn):
                    os.remove(fn)
            table = F.CharTable()
            fl = F.tg_floats(tg0) + (F.tg_floats(tg2) if tg2 is not None else [])
            rt = F.RankTable(fl)
            mem = F.doc_of_tg(tg0, table, rt.mem)
            resd = F.doc_of_tg(tg2, table, rt.id) if tg2 is not None else {"lo": -5, "hi": -5, "tiers": []}
            # includeBlankSpaces only re-fills what includeEmptyIntervals=False dropped: the written form is a fixed point
            strs = [t.name for t in tg0.tiers] + [e[-1] for t in tg0.tiers for e in t.entries]
            lay = {"short_textgrid": "short", "long_textgrid": "long", "json": "json", "textgrid_json": "tgjson"}[fmt]
            feats = dict(feats, derails_reader=F.derail_features(strs, lay)["derails_reader"])
            out.append({"id": eid, "fam": "file", "op": "roundtrip", "mem": mem, "fmt": "json" if fmt == "json" else fmt,
                        "args": {"blanks": blanks, "inclEmpty": incl}, "st1": st1, "st2": st2, "st3": st3, "res": resd,
                        "sametext": t1 is not None and t1 == t2, "st": st1 if st1 != "ok" else st2,
                        "features": dict(feats, fmt=fmt)})
            eid += 1
    return out


def check_c01(prop, tier):
    res = common.Result(prop)
    work = common.scratch()
    sz = SIZES[tier]
    try:
        T.praatio()
        emitted = run_mc("format", sz, work, res)
        res.exhaustive = True
        docs = distinct_docs(emitted)
        # C01's quantifier has quotes, doubled quotes, newlines, '=', digits, Unicode - the format's own keywords are C02's
        plans = [("plainwords", "plain"), ("plainuni", "nearint"), ("plainwords", "tiny"), ("uni", "plain"), ("plainwords", "thresh"),
                 ("ascii", "plain")] + \
                ([("plainuni", "ints"), ("plainwords", "dyadic")] if tier == "thorough" else [])
        jobs, start = [], 0
        for lp, np_ in plans:
            for ch in chunks([(d, lp, np_) for d in docs], common.NCPU):
                jobs.append(("tlc", ch, start, work))
                start += 16 * len(ch)
        seeds = [common.SEED * 1000003 + 500000 + i for i in range(sz["c01rand"])]
        for ch in chunks(seeds, common.NCPU):
            jobs.append(("rand", ch, start, work))
            start += 2 * len(ch)
        events = renumber(common.split_broken(res, prop, parallel(common.Guarded(_c01_job, 1), jobs)))
        for ev in events:
            if ev["mem"]["tiers"]:
                res.distinct.add((ev["fmt"], ev["args"]["blanks"], ev["args"]["inclEmpty"], ev["st1"], ev["st2"],
                                  tuple(t["kind"] for t in ev["mem"]["tiers"]), tuple(len(t["ents"]) for t in ev["mem"]["tiers"]),
                                  json.dumps(ev["features"], sort_keys=True)[:60]))
        if events:
            e0 = events[0]
            res.add_sample({k: e0[k] for k in ("fmt", "args", "mem", "res", "st1", "st2", "st3", "sametext", "features")})
        res.notes = dict(tlc_documents=len(docs), plans=plans, random_documents=len(seeds))
        res.assumptions = ["timestamps are compared as ranks of the bit patterns of all floats of one event; only the 1e-14 near-integer "
                           "allowance of the statement is admitted",
                           "documents saved with blank filling on keep every interval and gap above the default threshold (what happens "
                           "below it is C04's subject)"]
        return finish_file_check(res, prop, tier, events, work, ["C01_"], common.load_findings(),
                                 "every document of the TLC format universe concretized with label/number pools, and random textgrids, saved "
                                 "by Textgrid.save, opened by openTextgrid and saved again, for all four formats x includeBlankSpaces x "
                                 "includeEmptyIntervals; TLC compares memory and reopened documents and the fixed point; distinct = "
                                 "(format, flags, statuses, tier shapes, source) classes")
    finally:
        shutil.rmtree(work, ignore_errors=True)
