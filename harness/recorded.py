"""S3b: the repository's own tests and examples as a trace source (see recorder_plugin.py and spec/Trace_Recorded.tla)."""
import json
import os
import subprocess
import sys

from . import common


def run_suite_recorded(workdir):
    out = os.path.join(workdir, "recorded.ndjson")
    env = dict(os.environ)
    env["PRAATIO_VERIF_TRACE"] = out
    env["PYTHONPATH"] = common.VERIF + os.pathsep + common.REPO
    env["PYTHONDONTWRITEBYTECODE"] = "1"
    p = subprocess.run([sys.executable, "-m", "pytest", "-q", "-p", "no:cacheprovider", "-p", "harness.recorder_plugin", "tests"],
                       cwd=common.REPO, env=env, stdout=subprocess.PIPE, stderr=subprocess.STDOUT, text=True, timeout=1800)
    if not os.path.exists(out):
        raise common.MachineryError("the recorder produced no trace:\n" + p.stdout[-2000:])
    raw = [json.loads(l) for l in open(out)]
    os.remove(out)
    return raw, p.stdout.strip().splitlines()[-1] if p.stdout.strip() else ""


def _floats(x, acc):
    if isinstance(x, bool) or x is None:
        return
    if isinstance(x, (int, float)):
        acc.add(float(x))
    elif isinstance(x, list):
        for y in x:
            _floats(y, acc)
    elif isinstance(x, dict):
        for k, y in x.items():
            if k not in ("name", "kind"):
                _floats(y, acc)


def abstract(raw):
    """rank abstraction of one raw event; None if a snapshot is missing or malformed"""
    snaps = [raw["pre"], raw["post"]] + list(raw["argpre"]) + list(raw["argpost"]) + ([raw["ret"]] if raw["ret"] is not None else [])
    if any(s is None for s in snaps[:2]) or any(s is None for s in raw["argpre"] + raw["argpost"]):
        return None
    fl = set()
    for s in snaps:
        _floats(s, fl)
    rank = {v: 2 * i for i, v in enumerate(sorted(fl))}
    labels = {}

    def lab(x):
        x = x if isinstance(x, str) else repr(x)
        return labels.setdefault(x, "L%d" % len(labels))

    def tier(t):
        try:
            if t["kind"] == "I":
                ents = [{"s": rank[float(e[0])], "e": rank[float(e[1])], "l": lab(e[2])} for e in t["ents"]]
            else:
                ents = [{"t": rank[float(e[0])], "l": lab(e[1])} for e in t["ents"]]
            return {"kind": t["kind"], "name": lab(t["name"]), "lo": rank[float(t["lo"])], "hi": rank[float(t["hi"])], "ents": ents}
        except (KeyError, TypeError, ValueError, IndexError):
            raise ValueError("unprojectable tier")

    def snap(s):
        if s is None:
            return {"tiers": []}
        if "kind" in s:
            return {"tiers": [tier(s)]}
        if s["lo"] is None or s["hi"] is None:
            return {"tiers": [tier(t) for t in s["tiers"]], "lo": -1, "hi": -1}
        return {"lo": rank[float(s["lo"])], "hi": rank[float(s["hi"])], "tiers": [tier(t) for t in s["tiers"]]}
    try:
        pre, post = snap(raw["pre"]), snap(raw["post"])
        ev = {"recv": raw["recv"], "op": raw["op"], "mutator": bool(raw["mutator"]), "st": raw["st"], "pe": bool(raw["pe"]),
              "pre": pre, "post": post, "argpre": [snap(a) for a in raw["argpre"]], "argpost": [snap(a) for a in raw["argpost"]],
              "ret": snap(raw["ret"])["tiers"] if raw["ret"] is not None else [], "pretiers": pre["tiers"], "posttiers": post["tiers"],
              "depth": raw["depth"], "fam": "recorded"}
    except ValueError:
        return None
    return ev


def recorded_events(workdir):
    raw, summary = run_suite_recorded(workdir)
    out = []
    skipped = 0
    for r in raw:
        e = abstract(r)
        if e is None:
            skipped += 1
        else:
            out.append(e)
    return out, dict(raw_calls=len(raw), projected=len(out), skipped=skipped, pytest_summary=summary)
