"""Audio family (C16-C18): sample ids <-> PCM bytes, execution of Wav / QueryWav / readFramesAtTimes /
extractSubwav / splitAudioOnTier / zero-crossing search / splicing on the real code."""
import contextlib
import io
import os
import random
import shutil
import signal
import struct
import wave
from fractions import Fraction

from . import common
from . import tier as T

M = 4
_audio = None


def mods():
    global _audio
    if _audio is None:
        T.praatio()
        from praatio import audio, praatio_scripts
        from praatio.utilities import errors
        _audio = (audio, praatio_scripts, errors)
    return _audio


CODE = {1: "b", 2: "h", 4: "i"}


def value_of(i, width):
    """injective map sample id -> PCM value; ids 1 and 2 are the extremes of the range, no id maps to 0"""
    R = 1 << (8 * width)
    if i == 1:
        return -(R // 2)
    if i == 2:
        return R // 2 - 1
    K = {1: 37, 2: 7919, 4: 2654435761}[width]
    v = ((i * K) % R) - R // 2
    if v in (0, -(R // 2), R // 2 - 1):
        v = 1 + i
    return v


class Codec:
    def __init__(self, width, ids):
        self.width = width
        self.v = {}
        used = set()
        R = 1 << (8 * width)
        for i in ids:
            v = ((value_of(i, width) + R // 2) % R) - R // 2
            # narrow widths: resolve collisions; never use the values generated audio takes (silence 0, the sine of amplitude 3)
            while v in used or -3 <= v <= 3:
                v = v + 1 if v + 1 < R // 2 else -(R // 2) + 1
            used.add(v)
            self.v[i] = v
        self.inv = {v: i for i, v in self.v.items()}
        assert len(self.inv) == len(self.v), "id -> value map not injective"

    def to_bytes(self, ids):
        return struct.pack("<" + CODE[self.width] * len(ids), *[self.v[i] for i in ids])

    def from_bytes(self, b):
        """returns (ids, aligned); values that are no sample of the recording project to -1"""
        w = self.width
        aligned = len(b) % w == 0
        n = len(b) // w
        vals = struct.unpack("<" + CODE[w] * n, b[:n * w])
        return [self.inv.get(v, -1) for v in vals], aligned


def secs(t, rate):
    return float(Fraction(t, M * rate))


def mk_wav(ids, rate, codec):
    audio = mods()[0]
    frames = codec.to_bytes(ids)
    params = wave._wave_params(1, codec.width, rate, len(ids), "NONE", "not compressed")
    return audio.Wav(frames, params)


# sample ids a recording may hold: 1..39 in the small universes, up to 400 in the long random recordings (width 1 has only 256
# values: up to 130); 101..103 are reserved for frames that an operation inserts
IDS_BY_WIDTH = {1: list(range(1, 131)), 2: list(range(1, 404)), 4: list(range(1, 404))}
_CODECS = {}


def codec_for(width):
    if width not in _CODECS:
        _CODECS[width] = Codec(width, IDS_BY_WIDTH[width])
    return _CODECS[width]


def long_ids(rng, n, width):
    pool = [i for i in IDS_BY_WIDTH[width] if i not in (101, 102, 103)]
    return rng.sample(pool, min(n, len(pool)))


def run_edit(vec, rate, width, eid, workdir, wav=None):
    """vec: {op, args, pre} with times in 1/M samples; wav: a live object to continue a history on"""
    audio, _, errors = mods()
    codec = codec_for(width)
    if wav is None:
        wav = mk_wav(vec["pre"], rate, codec)
    else:
        vec = dict(vec, pre=codec.from_bytes(wav.frames)[0])
        _ = wav.duration                      # a user may look at the duration at any point of a history
    a = vec["args"]
    op = vec["op"]
    st, pe, ret = "ok", False, []
    aligned = True
    sameparams = True
    subalias = False
    try:
        if op in ("getSamples", "getFrames", "getSubwav"):
            if op == "getSamples":
                vals = wav.getSamples(secs(a["t0"], rate), secs(a["t1"], rate))
                ret = [codec.inv.get(v, -1) for v in vals]
            elif op == "getFrames":
                ret, aligned = codec.from_bytes(wav.getFrames(secs(a["t0"], rate), secs(a["t1"], rate)))
            else:
                sub = wav.getSubwav(secs(a["t0"], rate), secs(a["t1"], rate))
                ret, aligned = codec.from_bytes(sub.frames)
                # the excerpt is a recording of its own: editing it must not show in the recording it was cut from
                before = bytes(wav.frames)
                sub.concatenate(codec.to_bytes([103]))
                subalias = sub is wav or bytes(wav.frames) != before
        elif op == "deleteSegment":
            wav.deleteSegment(secs(a["t0"], rate), secs(a["t1"], rate))
        elif op == "insert":
            wav.insert(secs(a["t"], rate), codec.to_bytes(a["frames"]))
        elif op == "replaceSegment":
            wav.replaceSegment(secs(a["t0"], rate), secs(a["t1"], rate), codec.to_bytes(a["frames"]))
        elif op == "concatenate":
            wav.concatenate(codec.to_bytes(a["frames"]))
        elif op == "insDel":
            t = secs(a["t"], rate)
            wav.insert(t, codec.to_bytes(a["frames"]))
            wav.deleteSegment(t, t + len(a["frames"]) / rate)
        elif op == "bytesRT":
            vals = audio.convertFromBytes(audio.convertToBytes(tuple(codec.v[i] for i in vec["pre"]), width), width)
            ret = [codec.inv.get(v, -1) for v in vals]
        elif op in ("saveOpen", "saveQuery", "queryGetSamples"):
            # one path per worker, rewritten for every call: what a path held earlier must not matter
            fn = os.path.join(workdir, "w-%d.wav" % os.getpid())
            wav.save(fn)
            try:
                if op == "saveOpen":
                    w2 = audio.Wav.open(fn)
                    ret, aligned = codec.from_bytes(w2.frames)
                    sameparams = (w2.nchannels, w2.sampleWidth, w2.frameRate) == (1, width, rate) and w2.duration == wav.duration
                else:
                    q = audio.QueryWav(fn)
                    sameparams = (q.nchannels, q.sampleWidth, q.frameRate, q.nframes) == (1, width, rate, len(vec["pre"])) \
                        and q.duration == wav.duration
                    if op == "saveQuery":
                        vals = q.getSamples(0, q.duration)
                    else:
                        vals = q.getSamples(secs(a["t0"], rate), secs(a["t1"], rate))
                    ret = [codec.inv.get(v, -1) for v in vals]
                    q.audiofile.close()
            finally:
                os.remove(fn)
        else:
            raise common.MachineryError("unknown audio op " + op)
    except common.MachineryError:
        raise
    except Exception as ex:  # noqa
        st = type(ex).__name__
        pe = isinstance(ex, errors.PraatioException)
    post, al2 = codec.from_bytes(wav.frames)
    d = wav.duration * rate
    dur = int(round(d)) if abs(d - round(d)) < 1e-6 else -1
    return {"id": eid, "fam": "audio", "op": op, "args": a, "pre": vec["pre"], "st": st, "pe": pe, "ret": ret, "post": post,
            "aligned": bool(aligned and al2), "dur": dur, "M": M, "sameparams": bool(sameparams), "n": len(ret),
            "rate": rate, "width": width, "alias": bool(subalias)}


def write_wav(fn, ids, rate, codec):
    w = wave.open(fn, "w")
    w.setparams((1, codec.width, rate, len(ids), "NONE", "not compressed"))
    w.writeframes(codec.to_bytes(ids))
    w.close()


def run_read(vec, rate, width, eid, workdir):
    """readFramesAtTimes / generators / extractSubwav"""
    audio, _, errors = mods()
    codec = codec_for(width)
    a = vec["args"]
    op = vec["op"]
    st, pe, ret, aligned, sameparams = "ok", False, [], True, True
    fn = os.path.join(workdir, "r-%d-%d.wav" % (os.getpid(), eid))
    try:
        if op == "readAtTimes":
            write_wav(fn, vec["pre"], rate, codec)
            af = wave.open(fn, "r")
            gen = audio.AudioGenerator(width, rate)
            rf = None
            if a["gen"] == "silence":
                rf = gen.generateSilence
            elif a["gen"] == "sine":
                rf = gen.buildSineWaveGenerator(200, 3)
            keep = [(secs(x["s"], rate), secs(x["e"], rate)) for x in a["keep"]] or None
            dele = [(secs(x["s"], rate), secs(x["e"], rate)) for x in a["delete"]] or None
            if eid % 3 == 1:
                af.readframes(2)              # the handle has been read from before: its position is not 0
            try:
                ret, aligned = codec.from_bytes(audio.readFramesAtTimes(af, keep, dele, rf))
            finally:
                af.close()
        elif op in ("genSilence", "genSine"):
            gen = audio.AudioGenerator(width, rate)
            d = secs(a["d"], rate)
            b = gen.generateSilence(d) if op == "genSilence" else gen.generateSineWave(d, 200)
            aligned = len(b) % width == 0
            ret = [0] * (len(b) // width)
        elif op == "extractSubwav":
            # the source file of this worker is rewritten under ONE path for all its calls: what a path held earlier must not matter
            os.remove(fn) if os.path.exists(fn) else None
            fn = os.path.join(workdir, "src-%d.wav" % os.getpid())
            write_wav(fn, vec["pre"], rate, codec)
            out = fn + ".out.wav"
            try:
                audio.extractSubwav(fn, out, secs(a["t0"], rate), secs(a["t1"], rate))
                w = wave.open(out, "r")
                ret, aligned = codec.from_bytes(w.readframes(w.getnframes()))
                sameparams = (w.getnchannels(), w.getsampwidth(), w.getframerate()) == (1, width, rate)
                w.close()
            finally:
                if os.path.exists(out):
                    os.remove(out)
        else:
            raise common.MachineryError("unknown read op " + op)
    except common.MachineryError:
        raise
    except Exception as ex:  # noqa
        st = type(ex).__name__
        pe = isinstance(ex, errors.PraatioException)
    finally:
        if os.path.exists(fn):
            os.remove(fn)
    return {"id": eid, "fam": "audio", "op": op, "args": a, "pre": vec.get("pre", []), "st": st, "pe": pe, "ret": ret,
            "post": vec.get("pre", []), "aligned": bool(aligned), "dur": len(vec.get("pre", [])), "M": M,
            "sameparams": bool(sameparams), "n": len(ret), "rate": rate, "width": width}


# --------------------------------------------------------------------------- zero crossings

class Hang(Exception):
    pass


def _alarm(signum, frame):
    raise Hang()


def run_findzc(samples, t, step, rate, width, eid, limit=5, history=None):
    """samples: small integer values; t, step in 1/M samples.  history = (position, inserted values): the recording is reached
    on ONE Wav object by a search (whatever it memoises is filled), then an in-place insert; `samples` is the recording after it."""
    audio, _, errors = mods()
    scale = {1: 1, 2: 100, 4: 100000}[width]
    pack = lambda xs: struct.pack("<" + CODE[width] * len(xs), *[v * scale for v in xs])
    if history is None:
        wav = audio.Wav(pack(samples), wave._wave_params(1, width, rate, len(samples), "NONE", "not compressed"))
    else:
        p, ins = history
        base = samples[:p] + samples[p + len(ins):]
        wav = audio.Wav(pack(base), wave._wave_params(1, width, rate, len(base), "NONE", "not compressed"))
        try:
            wav.findNearestZeroCrossing(secs(min(t, M * len(base)) if t >= 0 else 0, rate), secs(step, rate))
            _ = wav.duration
        except Exception:  # noqa - the priming search is not the call under test
            pass
        wav.insert(secs(p * M, rate), pack(ins))
    st, ret, hung = "ok", -1, False
    # the budget is CPU time of this process (ITIMER_VIRTUAL), not wall time: a search that does not terminate burns CPU, a
    # worker that is merely not scheduled on a busy machine does not
    old = signal.signal(signal.SIGVTALRM, _alarm)
    try:
        signal.setitimer(signal.ITIMER_VIRTUAL, float(limit))
        r = wav.findNearestZeroCrossing(secs(t, rate), secs(step, rate))
        x = Fraction(r) * rate * M
        k = round(x)
        ret = int(k) if abs(x - k) < Fraction(1, 1000) else -7
    except Hang:
        hung, st = True, "hang"
    except Exception as ex:  # noqa
        st = type(ex).__name__
    finally:
        signal.setitimer(signal.ITIMER_VIRTUAL, 0)
        signal.signal(signal.SIGVTALRM, old)
    return {"id": eid, "fam": "zc", "op": "findZc", "samples": samples, "args": {"t": t, "step": step}, "st": st, "ret": ret,
            "hung": hung, "M": M, "rate": rate, "width": width}


def run_histories(nhist, seed, start, workdir, maxlen=6):
    """random edit histories on ONE live Wav each; every step is an event with the object's own before/after samples"""
    rng = random.Random(seed * 31 + 11)
    out = []
    eid = start
    for h in range(nhist):
        rate, width = rng.choice([(8, 1), (8, 2), (1000, 2), (16000, 4)])
        codec = codec_for(width)
        pre = rng.sample(range(1, 40), rng.choice([0, 2, 5, 9]))
        wav = mk_wav(pre, rate, codec)
        for step in range(rng.randint(2, maxlen)):
            n = len(wav.frames) // width
            if n > 30:
                break
            op = rng.choice(["getSamples", "deleteSegment", "insert", "replaceSegment", "concatenate", "getSubwav"])
            t0, t1 = sorted([rng.randint(0, M * n), rng.randint(0, M * n)])
            frames = [[], [101], [101, 102, 103]][rng.randrange(3)]
            # fresh ids must stay distinct from what the recording holds
            cur = set(codec.from_bytes(wav.frames)[0])
            frames = [f for f in frames if f not in cur]
            args = {"getSamples": {"t0": t0, "t1": t1}, "getSubwav": {"t0": t0, "t1": t1}, "deleteSegment": {"t0": t0, "t1": t1},
                    "insert": {"t": t0, "frames": frames}, "replaceSegment": {"t0": t0, "t1": t1, "frames": frames},
                    "concatenate": {"frames": frames}}[op]
            try:
                ev = run_edit({"op": op, "args": args, "pre": []}, rate, width, eid, workdir, wav=wav)
            except common.MachineryError:
                raise
            except Exception as ex:  # noqa
                out.append(common.broken_event(eid, {"op": op, "args": args}, ex))
                eid += 1
                break
            ev["hist"], ev["step"] = h, step
            out.append(ev)
            eid += 1
    return out


def run_query_histories(nhist, seed, start, workdir, maxlen=6):
    """several queries on ONE long-lived QueryWav (its file handle keeps a read position between calls); each query is a
    'queryGetSamples' event judged like a query on a fresh object"""
    audio, _, errors = mods()
    rng = random.Random(seed * 37 + 5)
    out = []
    eid = start
    for h in range(nhist):
        rate, width = rng.choice([(8, 1), (8, 2), (1000, 2), (16000, 4)])
        codec = codec_for(width)
        pre = rng.sample(range(1, 40), rng.choice([1, 2, 5, 9, 20]))
        fn = os.path.join(workdir, "q-%d-%d.wav" % (os.getpid(), eid))
        write_wav(fn, pre, rate, codec)
        try:
            q = audio.QueryWav(fn)
        except Exception as ex:  # noqa
            out.append(common.broken_event(eid, {"op": "QueryWav", "pre": pre}, ex))
            eid += 1
            os.remove(fn)
            continue
        try:
            n = len(pre)
            for step in range(rng.randint(2, maxlen)):
                t0, t1 = sorted([rng.randint(0, M * n), rng.randint(0, M * n)])
                if rng.random() < 0.4:
                    t0 = rng.choice([0, 1])              # starts at (or within half a sample of) the beginning
                if rng.random() < 0.2:
                    t1 = M * n
                st, pe, ret = "ok", False, []
                try:
                    if rng.random() < 0.5:
                        vals = q.getSamples(secs(t0, rate), secs(t1, rate))
                        ret = [codec.inv.get(v, -1) for v in vals]
                    else:
                        ret, _al = codec.from_bytes(q.getFrames(secs(t0, rate), secs(t1, rate)))
                except Exception as ex:  # noqa
                    st, pe = type(ex).__name__, isinstance(ex, errors.PraatioException)
                out.append({"id": eid, "fam": "audio", "op": "queryGetSamples", "args": {"t0": t0, "t1": t1}, "pre": pre, "st": st, "pe": pe,
                            "ret": ret, "post": pre, "aligned": True, "dur": n, "M": M, "sameparams": True, "n": len(ret),
                            "rate": rate, "width": width, "hist": h, "step": step})
                eid += 1
        finally:
            q.audiofile.close()
            os.remove(fn)
    return out


# --------------------------------------------------------------------------- splitAudioOnTier

def run_split(vec, rate, width, eid, workdir):
    """vec: {pre: ids, entries: [{s, e, l}], others: [abstract tiers on the same unit grid], style, nopartial, tgflag}"""
    audio, scripts, errors = mods()
    textgrid = T.praatio()[0]
    codec = codec_for(width)
    d = os.path.join(workdir, "split-%d-%d" % (os.getpid(), eid))
    os.makedirs(d)
    out = []
    try:
        wavfn = os.path.join(d, "src.wav")
        write_wav(wavfn, vec["pre"], rate, codec)
        total = secs(M * len(vec["pre"]), rate)
        tg = textgrid.Textgrid(0.0, total)
        tg.addTier(textgrid.IntervalTier("target", [(secs(x["s"], rate), secs(x["e"], rate), x["l"]) for x in vec["entries"]], 0.0, total))
        for k, t in enumerate(vec["others"]):
            if t["kind"] == "I":
                tg.addTier(textgrid.IntervalTier("o%d" % k, [(secs(x["s"], rate), secs(x["e"], rate), x["l"]) for x in t["ents"]], 0.0, total))
            else:
                tg.addTier(textgrid.PointTier("o%d" % k, [(secs(x["t"], rate), x["l"]) for x in t["ents"]], 0.0, total))
        tgfn = os.path.join(d, "src.TextGrid")
        tg.save(tgfn, "short_textgrid", True)
        outdir = os.path.join(d, "out")
        st, pe, ret = "ok", False, []
        try:
            with contextlib.redirect_stdout(io.StringIO()):
                ret = scripts.splitAudioOnTier(wavfn, tgfn, "target", outdir, vec["tgflag"], vec["style"], vec["nopartial"])
        except Exception as ex:  # noqa
            st = type(ex).__name__
            pe = isinstance(ex, errors.PraatioException)
        files = sorted(f for f in os.listdir(outdir)) if os.path.isdir(outdir) else []
        wavs = [f for f in files if f.endswith(".wav")]
        base = {"fam": "audio", "pre": vec["pre"], "post": vec["pre"], "pe": pe, "aligned": True, "dur": len(vec["pre"]), "M": M,
                "sameparams": True, "n": 0, "rate": rate, "width": width}
        out.append(dict(base, id=0, op="splitSummary", args={"style": vec["style"] or "none", "nopartial": vec["nopartial"], "tgflag": vec["tgflag"]},
                        st=st, ret=[], nentries=len(vec["entries"]), nfiles=len(wavs), nreturned=len(ret)))
        if st == "ok":
            for (start, end, name), x in zip(ret, vec["entries"]):
                fn = os.path.join(outdir, name)
                est, ids, aligned, same = "ok", [], True, True
                try:
                    w = wave.open(fn, "r")
                    ids, aligned = codec.from_bytes(w.readframes(w.getnframes()))
                    same = (w.getnchannels(), w.getsampwidth(), w.getframerate()) == (1, width, rate)
                    w.close()
                except Exception as ex:  # noqa
                    est = type(ex).__name__
                out.append(dict(base, id=0, op="splitFile", args={"t0": x["s"], "t1": x["e"]}, st=est, ret=ids, aligned=bool(aligned),
                                sameparams=bool(same), n=len(ids)))
                if vec["tgflag"]:
                    tfn = os.path.join(outdir, os.path.splitext(name)[0] + ".TextGrid")
                    tst, lo, hi, has = "ok", -1, -1, False
                    try:
                        sub = textgrid.openTextgrid(tfn, False, reportingMode="silence")
                        lo = _units(sub.minTimestamp, rate)
                        hi = _units(sub.maxTimestamp, rate)
                        has = any(e.label == x["l"] for e in sub.getTier("target").entries)
                    except Exception as ex:  # noqa
                        tst = type(ex).__name__
                    out.append(dict(base, id=0, op="splitTg", args={"t0": x["s"], "t1": x["e"], "label": x["l"]}, st=tst, ret=[],
                                    tglo=lo, tghi=hi, haslabel=bool(has)))
    finally:
        shutil.rmtree(d, ignore_errors=True)
    return out


def _units(x, rate):
    v = Fraction(x) * rate * M
    k = round(v)
    return int(k) if abs(v - k) < Fraction(1, 1000) else -7


# --------------------------------------------------------------------------- tgBoundariesToZeroCrossings / audioSplice

def run_tgzc(vec, rate, width, eid):
    """vec: {samples: values, tiers: [{kind, name, ents}]} times in 1/M samples (on sample positions)"""
    audio, scripts, errors = mods()
    textgrid = T.praatio()[0]
    scale = {1: 1, 2: 100, 4: 100000}[width]
    vals = [v * scale for v in vec["samples"]]
    wav = audio.Wav(struct.pack("<" + CODE[width] * len(vals), *vals), wave._wave_params(1, width, rate, len(vals), "NONE", "not compressed"))
    total = secs(M * len(vals), rate)
    tg = textgrid.Textgrid(0.0, total)
    for t in vec["tiers"]:
        if t["kind"] == "I":
            tg.addTier(textgrid.IntervalTier(t["name"], [(secs(x["s"], rate), secs(x["e"], rate), x["l"]) for x in t["ents"]], 0.0, total))
        else:
            tg.addTier(textgrid.PointTier(t["name"], [(secs(x["t"], rate), x["l"]) for x in t["ents"]], 0.0, total))

    def proj(tgx):
        out = []
        for t in tgx.tiers:
            isI = isinstance(t, textgrid.IntervalTier)
            times = [_units(v, rate) for e in t.entries for v in e[:-1]]
            out.append({"kind": "I" if isI else "P", "name": t.name, "times": times, "labels": [e[-1] for e in t.entries]})
        return out
    pre = proj(tg)
    st, ret = "ok", []
    try:
        with contextlib.redirect_stdout(io.StringIO()):
            fl = vec.get("flags") or {"adjP": True, "adjI": True}
            if fl["adjP"] and fl["adjI"]:
                r = scripts.tgBoundariesToZeroCrossings(tg, wav)                      # the defaults
            else:
                r = scripts.tgBoundariesToZeroCrossings(tg, wav, adjustPointTiers=fl["adjP"], adjustIntervalTiers=fl["adjI"])
        ret = proj(r)
    except Exception as ex:  # noqa
        st = type(ex).__name__
    # Two boundaries may snap to the same crossing (near the end of a recording the search only looks left): the tier
    # constructor then refuses the collapsed or overlapping intervals.  Recomputed here boundary by boundary.
    collapse = False
    if st == "TextgridStateError":
        try:
            for t in tg.tiers:
                if isinstance(t, textgrid.IntervalTier):
                    moved = [(wav.findNearestZeroCrossing(e[0]), wav.findNearestZeroCrossing(e[1])) for e in t.entries]
                    collapse = collapse or any(a >= b for a, b in moved) or any(moved[i][1] > moved[i + 1][0] for i in range(len(moved) - 1))
        except Exception:  # noqa
            pass
    return {"id": eid, "fam": "zc", "op": "tgZc", "samples": vec["samples"], "pre": pre, "ret": ret, "st": st, "M": M,
            "rate": rate, "width": width, "args": dict({"k": 0}, **(vec.get("flags") or {"adjP": True, "adjI": True})),
            "collapse": bool(collapse)}


def run_splice(vec, rate, width, eid):
    """vec: {audio: ids, splice: ids, tiers, tier (1-based index of the target tier), start, stop or None, align}"""
    audio, scripts, errors = mods()
    textgrid = T.praatio()[0]
    codec = Codec(width, list(range(1, 60)) + list(range(101, 130)))
    wav = mk_wav(vec["audio"], rate, codec)
    seg = mk_wav(vec["splice"], rate, codec)
    total = secs(M * len(vec["audio"]), rate)
    tg = textgrid.Textgrid(0.0, total)
    for t in vec["tiers"]:
        if t["kind"] == "I":
            tg.addTier(textgrid.IntervalTier(t["name"], [(secs(x["s"], rate), secs(x["e"], rate), x["l"]) for x in t["ents"]], 0.0, total))
        else:
            tg.addTier(textgrid.PointTier(t["name"], [(secs(x["t"], rate), x["l"]) for x in t["ents"]], 0.0, total))

    def proj(tgx):
        tiers = []
        for t in tgx.tiers:
            if isinstance(t, textgrid.IntervalTier):
                tiers.append({"kind": "I", "name": t.name, "ents": [{"s": _units(e[0], rate), "e": _units(e[1], rate), "l": e[2]} for e in t.entries]})
            else:
                tiers.append({"kind": "P", "name": t.name, "ents": [{"t": _units(e[0], rate), "l": e[1]} for e in t.entries]})
        return {"lo": _units(tgx.minTimestamp, rate), "hi": _units(tgx.maxTimestamp, rate), "tiers": tiers}
    pre = proj(tg)
    st, retaudio, rettg = "ok", [], {"lo": 0, "hi": 0, "tiers": [{"kind": "I", "name": "", "ents": []} for _ in vec["tiers"]]}
    stop = None if vec["stop"] is None else secs(vec["stop"], rate)
    try:
        with contextlib.redirect_stdout(io.StringIO()):
            a2, t2 = scripts.audioSplice(wav, seg, tg, vec["tiers"][vec["tier"] - 1]["name"], "NEW", secs(vec["start"], rate), stop,
                                         alignToZeroCrossing=vec["align"])
        retaudio = codec.from_bytes(a2.frames)[0]
        rettg = proj(t2)
    except Exception as ex:  # noqa
        st = type(ex).__name__
    return {"id": eid, "fam": "zc", "op": "splice", "audio": vec["audio"], "splice": vec["splice"], "pretg": pre, "rettg": rettg,
            "retaudio": retaudio, "st": st, "M": M, "rate": rate, "width": width,
            "args": {"tier": vec["tier"], "label": "NEW", "start": vec["start"], "stop": vec["stop"] if vec["stop"] is not None else -1,
                     "hasstop": vec["stop"] is not None, "align": vec["align"]}}
