"""./check <Cxx> [--tier quick|thorough] [--replay <path>]"""
import argparse
import json
import os
import sys
import traceback

from . import common


def main():
    ap = argparse.ArgumentParser()
    ap.add_argument("prop")
    ap.add_argument("--tier", default=None)
    ap.add_argument("--replay", default=None)
    a = ap.parse_args()
    tier = a.tier or common.tier_name()
    os.environ["VERIF_TIER"] = tier
    try:
        if a.replay:
            from . import replay
            return replay.run(a.prop, a.replay)
        from . import registry
        fn = registry.CHECKS.get(a.prop)
        if fn is None:
            print("unknown property", a.prop)
            return 2
        return fn(a.prop, tier)
    except common.MachineryError as ex:
        print("MACHINERY FAILURE:", ex)
        return 2
    except Exception:
        traceback.print_exc()
        print("MACHINERY FAILURE: unexpected exception in the harness")
        return 2


if __name__ == "__main__":
    sys.exit(main())
