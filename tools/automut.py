#!/usr/bin/env python3
"""Automatic mutation campaign (calibration, not a registered check).

For every function of the anchored source files a few token-level mutants are made (comparison operators, +/-, and/or, True/False,
min/max, round->int, small constants, dropped 'not').  Each is applied to ONE scratch worktree of /repo (outside /repo and /verif),
the repository's tests are run, and for mutants that keep the 367 tests green the quick checks of the properties anchored at that
function are run against the worktree (VERIF_REPO).  Results: /verif/mutants/auto/results.jsonl (one line per mutant), the diff of every
surviving-and-undetected mutant in /verif/mutants/auto/undetected/.  usage: tools/automut.py [per_function=4] [seed=0] [file filter]"""
import ast, io, json, os, random, re, subprocess, sys, tokenize, collections

REPO = "/repo"
OUT = "/verif/mutants/auto"
FILES = ["praatio/data_classes/interval_tier.py", "praatio/data_classes/point_tier.py", "praatio/data_classes/textgrid_tier.py",
         "praatio/data_classes/textgrid.py", "praatio/utilities/textgrid_io.py", "praatio/utilities/utils.py", "praatio/utilities/my_math.py",
         "praatio/audio.py", "praatio/praatio_scripts.py", "praatio/data_classes/klattgrid.py", "praatio/klattgrid.py",
         "praatio/data_points.py", "praatio/data_classes/data_point.py", "praatio/pitch_and_intensity.py", "praatio/textgrid.py"]
SKIP_FUNCS = {"runPraatScript", "makeDir", "resynthesize", "extractPitch", "extractIntensity", "extractPI", "_extractPIFile",
              "_extractPIPiecewise", "generatePIMeasures", "extractPitchTier", "getAudioDuration", "changeGender", "changeIntensity",
              "annotateSilences", "resynthesizeDuration", "resynthesizePitch", "getSpectralInfo", "getPulses", "getFormants"}
EXTRA = {  # functions the anchors do not name
    ("textgrid.py", "replaceTier"): ["C12", "C13"], ("textgrid.py", "removeTier"): ["C12"], ("textgrid.py", "editTimestamps"): ["C09"],
    ("textgrid.py", "getTier"): ["C12"], ("textgrid.py", "__init__"): ["C12"], ("textgrid.py", "tierNames"): ["C12"],
    ("my_math.py", "isclose"): ["C02", "C14"], ("my_math.py", "medianFilter"): ["C20"], ("my_math.py", "rms"): ["C20"],
    ("my_math.py", "filterTimeSeriesData"): ["C20"], ("audio.py", "readFramesAtTime"): ["C16", "C17"],
    ("audio.py", "_iterZeroCrossings"): ["C18"], ("audio.py", "getSamples"): ["C16"], ("audio.py", "concatenate"): ["C16"],
    ("audio.py", "save"): ["C16"], ("audio.py", "duration"): ["C16"], ("audio.py", "__init__"): ["C16"],
    ("audio.py", "_getNearestZero"): ["C18"], ("audio.py", "_getZeroThresholdCrossing"): ["C18"], ("audio.py", "calculateMaxAmplitude"): ["C17"],
    ("utils.py", "chooseClosestTime"): ["C18"], ("utils.py", "sign"): ["C18"], ("utils.py", "getValuesInInterval"): ["C15"],
    ("utils.py", "findAll"): ["C03"], ("utils.py", "safeZip"): ["C19"], ("utils.py", "getErrorReporter"): ["C09", "C12"],
    ("utils.py", "validateOption"): ["C11"], ("praatio_scripts.py", "_shiftTimes"): ["C18"],
    ("praatio_scripts.py", "tgBoundariesToZeroCrossings"): ["C18"], ("praatio_scripts.py", "splitTierEntries"): ["X01"],
    ("praatio_scripts.py", "spellCheckEntries"): ["X02"], ("my_math.py", "znormWindowFilter"): ["X03"],
    ("pitch_and_intensity.py", "detectPitchErrors"): ["C20"], ("textgrid_tier.py", "__init__"): ["C05"],
    ("textgrid_tier.py", "entries"): ["C13"], ("textgrid_tier.py", "timestamps"): ["C15"], ("textgrid_tier.py", "deleteEntry"): ["C11"],
    ("interval_tier.py", "__init__"): ["C05"], ("point_tier.py", "__init__"): ["C05"], ("interval_tier.py", "timestamps"): ["C15"],
    ("point_tier.py", "timestamps"): ["C15"], ("interval_tier.py", "new"): ["C13"],
    ("textgrid_io.py", "getTextgridAsStr"): ["C02", "C04"], ("textgrid_io.py", "_fetchRow"): ["C03"], ("textgrid_io.py", "_findAllSubstrs"): ["C03"],
    ("data_point.py", "__init__"): ["C19"], ("data_point.py", "getPointsInInterval"): ["C19"],
    ("klattgrid.py", "openKlattgrid"): ["C19"], ("klattgrid.py", "_proccessContainerTierInput"): ["C19"], ("klattgrid.py", "_findIndicies"): ["C19"],
    ("klattgrid.py", "_buildEntries"): ["C19"], ("klattgrid.py", "_cleanNumericValues"): ["C19"], ("klattgrid.py", "getAsText"): ["C19"],
    ("klattgrid.py", "modifyValues"): ["C19"], ("klattgrid.py", "__init__"): ["C19"], ("klattgrid.py", "addTier"): ["C19"],
    ("klattgrid.py", "_openShortKlattgrid"): ["C19"],
}
FILE_FALLBACK = {"interval_tier.py": ["C05", "C13"], "point_tier.py": ["C05", "C13"], "textgrid_tier.py": ["C05", "C13"],
                 "textgrid.py": ["C12", "C13"], "textgrid_io.py": ["C03", "C02"], "utils.py": ["C15", "C06"], "my_math.py": ["C20"],
                 "audio.py": ["C16", "C17"], "praatio_scripts.py": ["C18", "C17"], "klattgrid.py": ["C19"], "data_points.py": ["C19"],
                 "data_point.py": ["C19"], "pitch_and_intensity.py": ["C20"]}
COST = {p: i for i, p in enumerate(["C16", "C17", "C15", "C18", "C03", "C19", "C20", "C01", "C02", "X03", "X02", "X01", "C04", "C11", "C05", "C13",
                                    "C09", "C06", "C07", "C08", "C10", "C14", "C12"])}

SWAPS = {"<": ["<="], "<=": ["<"], ">": [">="], ">=": [">"], "==": ["!="], "!=": ["=="], "+": ["-"], "-": ["+"], "and": ["or"], "or": ["and"],
         "True": ["False"], "False": ["True"], "min": ["max"], "max": ["min"], "round": ["int"], "0": ["1"], "1": ["0", "2"], "2": ["1"],
         "0.0": ["1.0"], "not": [""], "*": ["/"], "is": ["is not"]}


def anchor_map():
    fm = collections.defaultdict(set)
    for l in open("/verif/properties.jsonl"):
        d = json.loads(l)
        for mech in d["anchors"]["mechanism"]:
            for f, fn in re.findall(r"([\w/]+\.py):\s*([\w\./,\s]+?)(?:\s*\(|;|$)", mech["where"]):
                for name in re.split(r"[,/\s]+", fn):
                    if name:
                        fm[(os.path.basename(f), name.split(".")[-1])].add(d["id"])
    for k, v in EXTRA.items():
        fm[k].update(v)
    return fm


def functions(src):
    tree = ast.parse(src)
    out = []
    for node in ast.walk(tree):
        if isinstance(node, (ast.FunctionDef, ast.AsyncFunctionDef)):
            body = node.body
            first = body[0]
            start = first.end_lineno + 1 if (isinstance(first, ast.Expr) and isinstance(getattr(first, "value", None), ast.Constant)
                                             and isinstance(first.value.value, str)) else first.lineno
            out.append((node.name, start, node.end_lineno))
    return out


def mutants_of(src, lo, hi):
    """token-level mutants within lines lo..hi: list of (line, col, old, new)"""
    out = []
    toks = list(tokenize.generate_tokens(io.StringIO(src).readline))
    depth_fstring = 0
    for i, t in enumerate(toks):
        if not (lo <= t.start[0] <= hi) or t.start[0] != t.end[0]:
            continue
        s = t.string
        if t.type in (tokenize.OP, tokenize.NAME, tokenize.NUMBER) and s in SWAPS:
            line = t.line
            if line.lstrip().startswith(("raise", "print", "f\"", "\"", "'")) or "Error(" in line or "warnings." in line:
                continue
            if s in ("+", "-"):
                prev = toks[i - 1]
                if prev.type == tokenize.OP and prev.string not in (")", "]"):      # unary
                    continue
            if s == "*" and (toks[i - 1].string in ("(", ",", "[") or toks[i + 1].type == tokenize.OP):   # *args
                continue
            if s == "is" and toks[i + 1].string == "not":
                continue
            if s in ("0", "1", "2") and toks[i - 1].string == "[" and toks[i + 1].string == "]" and False:
                continue
            for new in SWAPS[s]:
                out.append((t.start[0], t.start[1], s, new))
    return out


def apply(src, m):
    line, col, old, new = m
    lines = src.split("\n")
    L = lines[line - 1]
    assert L[col:col + len(old)] == old, (L, col, old)
    lines[line - 1] = L[:col] + new + L[col + len(old):]
    return "\n".join(lines)


def sh(cmd, env=None, timeout=3600):
    try:
        r = subprocess.run(cmd, shell=True, stdout=subprocess.PIPE, stderr=subprocess.STDOUT, text=True, env=env, timeout=timeout)
        return r.returncode, r.stdout
    except subprocess.TimeoutExpired:
        return 124, "TIMEOUT"


def main():
    per = int(sys.argv[1]) if len(sys.argv) > 1 else 4
    seed = int(sys.argv[2]) if len(sys.argv) > 2 else 0
    filt = sys.argv[3] if len(sys.argv) > 3 else ""
    rng = random.Random(seed)
    os.makedirs(OUT + "/undetected", exist_ok=True)
    fm = anchor_map()
    done = set()
    resf = os.path.join(OUT, "results.jsonl")
    if os.path.exists(resf):
        for l in open(resf):
            done.add(json.loads(l)["id"])
    wt = "/tmp/praatio-automut-%d" % os.getpid()
    ev = "/tmp/praatio-automut-ev-%d" % os.getpid()
    os.makedirs(ev, exist_ok=True)
    assert sh("git -C %s worktree add -q --detach %s HEAD" % (REPO, wt))[0] == 0
    try:
        for f in FILES:
            if filt and filt not in f:
                continue
            src = open(os.path.join(REPO, f)).read()
            base = os.path.basename(f)
            for name, lo, hi in functions(src):
                if name in SKIP_FUNCS:
                    continue
                cands = mutants_of(src, lo, hi)
                rng.shuffle(cands)
                for m in cands[:per]:
                    mid = "%s:%s:%d:%d:%s->%s" % (base, name, m[0], m[1], m[2], m[3] or "(dropped)")
                    if mid in done:
                        continue
                    new = apply(src, m)
                    try:
                        compile(new, f, "exec")
                    except SyntaxError:
                        continue
                    open(os.path.join(wt, f), "w").write(new)
                    rc, out = sh("cd %s && PYTHONPATH=%s timeout 300 /venv/bin/python -m pytest -q -x -p no:cacheprovider 2>&1 | tail -1" % (wt, wt))
                    tests = out.strip().splitlines()[-1] if out.strip() else "?"
                    rec = dict(id=mid, file=f, function=name, line=m[0], old=m[2], new=m[3], tests=tests, survives_tests="failed" not in tests and "error" not in tests and "passed" in tests)
                    if rec["survives_tests"]:
                        props = sorted(fm.get((base, name)) or FILE_FALLBACK.get(base, []), key=lambda p: COST.get(p, 99))
                        rec["props"] = props
                        rec["checks"] = {}
                        rec["detected"] = False
                        for p in props:
                            env = dict(os.environ, VERIF_REPO=wt, VERIF_EVIDENCE_DIR=ev)
                            rc2, out2 = sh("cd /verif && ./check %s --tier quick 2>&1" % p, env=env, timeout=1800)
                            clauses = sorted(set(re.findall(r"clause=(\S+)", out2)))
                            rec["checks"][p] = dict(rc=rc2, clauses=clauses[:4])
                            if rc2 == 1:
                                rec["detected"] = True
                                break
                        if not rec["detected"]:
                            d = sh("git -C %s diff" % wt)[1]
                            open(os.path.join(OUT, "undetected", re.sub(r"[^\w.-]+", "_", mid) + ".diff"), "w").write(d)
                    with open(resf, "a") as fh:
                        fh.write(json.dumps(rec) + "\n")
                    print(mid, "|", tests[:40], "|", rec.get("detected"), {p: (c["rc"], c["clauses"][:1]) for p, c in rec.get("checks", {}).items()}, flush=True)
                    sh("git -C %s checkout -- ." % wt)
    finally:
        sh("git -C %s worktree remove --force %s" % (REPO, wt))
        sh("rm -rf %s" % ev)


if __name__ == "__main__":
    main()
