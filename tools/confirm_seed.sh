#!/bin/bash
# usage: tools/confirm_seed.sh <seed dir with patch.diff + demo.py> -> prints tests=<n passed> demo_with=<rc> demo_without=<rc>
# Confirms a seeded change in a scratch worktree of /repo (outside /repo and /verif), removed afterwards.
d="$1"
wt=$(mktemp -d /tmp/praatio-seed-XXXXXX)
rmdir "$wt"
git -C /repo worktree add -q "$wt" HEAD || exit 2
cd "$wt" || exit 2
if ! git apply "$d/patch.diff" 2>/dev/null; then echo "apply=FAILED"; cd /; git -C /repo worktree remove --force "$wt"; exit 3; fi
tests=$(PYTHONPATH="$wt" /venv/bin/python -m pytest -q -p no:cacheprovider 2>&1 | tail -1)
PYTHONPATH="$wt" timeout 300 /venv/bin/python "$d/demo.py" >/dev/null 2>&1; with=$?
git checkout -q -- .
PYTHONPATH="$wt" timeout 300 /venv/bin/python "$d/demo.py" >/dev/null 2>&1; without=$?
cd /
git -C /repo worktree remove --force "$wt"
echo "apply=ok tests=[$tests] demo_with_patch_rc=$with demo_without_patch_rc=$without"
