#!/usr/bin/env python3
"""Runs every mutant of /verif/mutants/catalogue.json through tools/muttest.sh (scratch worktree, /repo untouched) against the
checks named for it and writes /verif/mutants/detection.json."""
import json, re, subprocess, sys
cat = json.load(open("/verif/mutants/catalogue.json"))
only = set(sys.argv[1:])
try:
    res = json.load(open("/verif/mutants/detection.json"))
except Exception:
    res = {}
for m in cat:
    if not m["properties"] or (only and m["name"] not in only) or (not only and m["name"] in res):
        continue
    out = subprocess.run(["/verif/tools/muttest.sh", "/verif/mutants/%s.diff" % m["name"]] + m["properties"],
                         stdout=subprocess.PIPE, stderr=subprocess.STDOUT, text=True).stdout
    tests = re.search(r"repo tests with the patch: (.*)", out)
    per = {}
    for p in m["properties"]:
        mm = re.search(r"^%s rc=(\d+) :: (.*)$" % p, out, re.M)
        per[p] = dict(rc=int(mm.group(1)) if mm else -1, clauses=sorted(set(re.findall(r"clause=(\S+)", mm.group(2)))) if mm else [])
    res[m["name"]] = dict(repo_tests=tests.group(1) if tests else "?", checks=per, detected=any(v["rc"] == 1 for v in per.values()))
    print(m["name"], res[m["name"]]["repo_tests"], {p: (v["rc"], v["clauses"][:2]) for p, v in per.items()}, flush=True)
    json.dump(res, open("/verif/mutants/detection.json", "w"), indent=1)
