#!/bin/bash
# usage: tools/seedtest.sh <patch.diff> <Cxx> [tier]   -- applies the patch to /repo, runs the check, always reverts
patch="$1"; prop="$2"; tier="${3:-quick}"
cd /repo || exit 2
if ! git diff --quiet || ! git diff --cached --quiet; then echo "/repo has uncommitted changes"; exit 2; fi
if ! git apply "$patch" 2>/tmp/seedtest.err; then
  if ! git apply --3way "$patch" 2>>/tmp/seedtest.err; then echo "PATCH DOES NOT APPLY"; head -5 /tmp/seedtest.err; git reset -q; git checkout -- . ; exit 3; fi
  git reset -q
fi
cd /verif && ./check "$prop" --tier "$tier" 2>&1 | grep -E "VIOLATION|DETAIL|KNOWN-FINDING|MACHINERY|: ok;|violating" | cut -c1-300 | head -24
rc=${PIPESTATUS[0]}
git -C /repo checkout -- .
echo "exit=$rc"
