#!/usr/bin/env python3
"""Writes /verif/MANIFEST.json from the table below (one source of truth for the interface)."""
import json, os, sys
sys.path.insert(0, os.path.dirname(os.path.dirname(os.path.abspath(__file__))))
HERE = os.path.dirname(os.path.dirname(os.path.abspath(__file__)))

TECH = ("explicit TLA+ specification: TLC model-checks the code-shaped transcription (Impl) against the property "
        "relations (Prop) over a bounded universe and emits every transition; the transitions and random vectors are "
        "replayed into the real praatio code and TLC validates every recorded call against the same Prop relations")
NOTE = ("Bounded: TLC is exhaustive only within the stated constants; the Python code is tied to the specification by the "
        "replayed/random executions counted in the evidence file, not proved. Trusted: TLC + CommunityModules, the "
        "harness's embedding/projection of floats and labels (harness/tier.py), my reading of the statement in spec/*Prop.tla.")

CLAIMED = {
 "C01": ("spec/MC_File.tla (FileMachine) + spec/PraatText.tla + spec/FileProp.tla (RoundTripClauses) + spec/Trace_File.tla", "5 (C01)",
         "TLC checks on the FileMachine that the specification's reader inverts the specification's writers for every document of the universe; "
         "those documents (x label pools x number pools incl. near-integers, 17-digit decimals, 1e-17..1e15) and random textgrids go through the real "
         "save -> open -> save for 4 formats x includeBlankSpaces x includeEmptyIntervals; TLC compares memory and reopened documents with numbers "
         "as ranks of bit patterns (only the stated 1e-14 near-integer allowance) and checks the fixed point."),
 "C02": ("spec/PraatText.tla (Lex/ParseTextGrid written from Praat's file-format rule) + spec/FileProp.tla (SaveClausesC02) + spec/Trace_File.tla", "5 (C02)",
         "every file written by the real Textgrid.save (4 formats, blanks on/off, overrides; keyword-like labels and names) is lexed and parsed by the "
         "TLA+ formalisation of the format, evaluated by TLC character by character, and compared with the in-memory document; declared sizes, "
         "quote doubling, partition of the file span and agreement of the four formats are clauses."),
 "C03": ("spec/MC_File.tla (EncShort/EncLong praat+ELAN as independent writers) + spec/FileProp.tla (OpenClauses, AgreeClauses)", "5 (C03)",
         "TLC encodes every document of the universe in short, long and ELAN-long layout (all number spellings, -0, empty tiers, blank and "
         "white-space labels, duplicate names); the files (x 4 encodings x LF/CRLF x number pools) and structural JSON files are opened by the real "
         "openTextgrid and TLC compares the result with what the file encodes."),
 "C04": ("spec/FileImpl.tla (transcription of _fillInBlanks/_removeUltrashortIntervals) + spec/FileProp.tla (PrepClauses, SaveClausesC04) + spec/MC_File.tla (prep mode)", "5 (C04)",
         "TLC checks the transcription of the save preparation against the sliver relation for every interval tier x span override x threshold of the "
         "grid universe; the same cases and random tiers on exact dyadic grids around the threshold are saved by the real code in all four formats, "
         "decoded by the TLA+ reader and judged by TLC."),
 "C15": ("spec/MC_Query.tla (transcriptions of getNonEntries, timestamps, the getValueAtTime scan, getValuesInInterval) + spec/QueryProp.tla", "5 (C15)",
         "TLC checks the query transcriptions against their definitions for every tier of the grid universe x small sample series and emits each "
         "case for replay; random tiers/queries cover find (equality, substring, a closed regex family with case-insensitive semantics defined in the "
         "spec), interval helpers, equality under single-field perturbations and validate() under injected corruptions (multi-tier textgrids)."),
 "C16": ("spec/MC_Audio.tla (edit mode) + spec/AudioImpl.tla + spec/AudioProp.tla + spec/Trace_Audio.tla", "5 (C16)",
         "TLC explores the audio state machine (recordings as sequences of distinct sample ids, every time on the quarter-sample grid, every "
         "single edit from every recording of the universe, and at design level every history of two or three edits) checking the transcription of Wav's slice arithmetic against the list-of-samples relations; every transition is replayed on "
         "real Wav objects for several (rate, width), plus random recordings (also 60-400 samples at rates where rate*(k/rate) < k), live edit histories, query histories on one QueryWav, bytes/save/open round trips."),
 "C17": ("spec/MC_Audio.tla (read mode) + spec/AudioImpl.tla (invertIntervalList, readFramesAtTimes) + spec/AudioProp.tla", "5 (C17)",
         "TLC enumerates every keep/delete interval list on the quarter-sample grid x replacement and checks the transcription against the "
         "kept-stretches relation; the cases are replayed on real wave files; generators, extractSubwav and splitAudioOnTier (files, cropped "
         "TextGrids, name styles) are exercised on random inputs and judged by TLC."),
 "C18": ("spec/ZeroCross.tla (explicit loop machine: Termination, Progress, ResultOK) + spec/ZeroCrossProp.tla", "5 (C18)",
         "TLC checks termination (liveness under weak fairness on the unconstrained Spec) and genuineness of every returned crossing for all "
         "recordings over {-2..2} up to the length bound x on-sample targets x steps; each run is replayed on the real findNearestZeroCrossing "
         "under a hang guard; tgBoundariesToZeroCrossings and audioSplice are judged on random textgrids."),
 "C19": ("spec/MC_Klatt.tla (KlattMachine) + spec/KlattProp.tla + spec/Trace_Klatt.tla", "5 (C19)",
         "TLC explores every save/open/modifySubtiers/modifyValues behaviour of the KlattMachine (values as provenance terms) to the depth bound; "
         "every behaviour is replayed on synthetic KlattGrids (1-12 formants, 0-3 points) and on the reference KlattGrid with concrete functions; "
         "TLC compares every leaf tier's span, times and values as ranks of bit patterns; point objects are saved/opened and their long and short "
         "encodings (Praat layout, compact, with/without final newline) opened and compared."),
 "C20": ("spec/MC_Series.tla (transcription of _stepFilter) + spec/SeriesProp.tla", "5 (C20)",
         "TLC checks the window/offset/edge bookkeeping of _stepFilter against the median definition for every small integer series x window 0..8 x "
         "padding and replays each case through the real medianFilter; z-normalisation, rms, pitch measures, jump detector, listing parser and row "
         "filters are judged by TLC on exact integer/rational restatements of their definitions with explicit rounding tolerances. "
         "This is the property where TLA+ contributes least (pure numeric functions)."),
 "C05": ("spec/MC_Tier.tla + spec/TierProp.tla (WFClauses) + spec/Trace_Tier.tla", "5 (C05)",
         "TLC checks RecvWF/NoFail on the tier state machine for all 16 operations from every well-formed start state; every "
         "transition, random millisecond-grid vectors and random live histories (<= 12 steps, exact dyadic arithmetic; plus decimal-grid histories with accumulating rounding noise, judged by the float-level clauses only) are executed on "
         "the real code and each step's returned tier and receiver are judged well-formed (on projected integers by TLC, and on the raw "
         "floats + validate() agreement by the harness)."),
 "C06": ("spec/MC_Tier.tla (DoCrop) + TierProp.CropClauses", "5 (C06)",
         "all order types of <= K intervals against all windows on the grid x modes x rebase are enumerated by TLC, checked Impl => Prop, "
         "replayed into the real crop under dyadic and non-dyadic embeddings, and judged by TLC; plus random 3-decimal tiers."),
 "C07": ("spec/MC_Tier.tla (DoErase) + TierProp.EraseClausesI/P", "5 (C07)",
         "as C06 for eraseRegion; the non-dyadic embeddings decide the 'never fails because of rounding' clause."),
 "C08": ("spec/MC_Tier.tla (DoSpace, DoSpaceErase) + TierProp.SpaceClauses/SpaceEraseClauses", "5 (C08)",
         "as C06 for insertSpace and for the composition insertSpace;eraseRegion (inverse law)."),
 "C09": ("spec/MC_Tier.tla (DoEdit, DoEditRT, DoAppend) + TierProp.EditClauses/AppendClauses", "5 (C09)",
         "as C06 for editTimestamps (all offsets incl. clipping all entries, 3 reporting modes), shift round trip and appendTier over all pairs."),
 "C10": ("spec/MC_Tier.tla (DoUnion, DoDiff, DoInter, DoMergeL) + TierProp set-operation clauses", "5 (C10)",
         "all ordered pairs of tiers of the bounded universe; Prop is the algebra of labelled time (LabelAt/Covered at all boundary probes); three embeddings incl. 'far'."),
 "C11": ("spec/MC_Tier.tla (DoInsert, DoDelete) + TierProp.InsertClausesI/P, DeleteClauses", "5 (C11)",
         "all candidate entries (fresh ones and the tier's own) x 3 collision modes x reporting modes (incl. an invalid value) on every tier; live insert/delete histories compared step by step by TLC; also on the 'far' embedding (times near 2000 s on a microsecond grid, where equality within a relative tolerance and equality part ways) and on tiers reached through a history."),
 "C13": ("spec/MC_Tier.tla action properties CopyOpsPure/FailedMutatorNoChange/ArgNeverChanges + TierProp.CopyOpClauses/MutatorClauses", "5 (C13)",
         "every recorded call carries before/after snapshots of receiver and argument (taken on the exception path too); TLC checks the C13 clauses on every event; returned tiers are probed for aliasing (identity, and an edit of the result that must not show in the operands)."),
 "C12": ("spec/MC_Tg.tla + spec/TgImpl.tla + spec/TgProp.tla + spec/Trace_Tg.tla", "5 (C12)",
         "TLC explores every addTier/removeTier/renameTier/replaceTier history over 4 names, <= 5 slots, indices -2..len+2 and None to depth 5 against the list model (NamesUnique, SpanCovers, SpanNeverShrinks, NoFail); every transition of a reduced universe and of the tier-wise edits on all two-tier textgrids is replayed on real Textgrid objects and judged by TLC; tier-wise equality is judged against the real tier method applied to each tier."),
 "C14": ("spec/MC_Tier.tla (DoDejitter, DoMorph) + TierProp.DejitterClauses/MorphClauses", "5 (C14)",
         "all (tier, reference) pairs x maxDifference, all equal-count pairs x label filters; ties at exactly maxDifference are strict under exact (dyadic) arithmetic; references reached through a history (views read, an entry deleted); alignBoundariesAcrossTiers on random textgrids incl. the 'far' embedding."),
}

def main():
    props = [json.loads(l) for l in open(os.path.join(HERE, "properties.jsonl"))]
    na_reasons = json.load(open(os.path.join(HERE, "tools", "not_applicable.json")))
    checks = []
    for p in props:
        pid = p["id"]
        if pid not in CLAIMED:
            continue
        engine, ref, text = CLAIMED[pid]
        checks.append({
            "property_id": pid,
            "quick_cmd": "./check %s --tier quick" % pid,
            "thorough_cmd": "./check %s --tier thorough" % pid,
            "evidence_file": "/verif/evidence/%s.json" % pid,
            "replay_cmd_template": "./check %s --replay {path}" % pid,
            "engine": engine,
            "level_claimed": {"category": "model_checking", "text": text, "design_ref": "DESIGN.md section " + ref},
            "level_note": NOTE,
            "technique": TECH,
        })
    m = {
        "version": 1,
        "setup_cmd": "./setup.sh",
        "hooks": {
            "guard": "PRAATIO_VERIF",
            "enable": "no source hooks: praatio's public API exposes the whole abstract state; recorders live in /verif/harness and import praatio from /repo's working tree",
            "baseline_off_cmd": "cd /repo && /venv/bin/python -m pytest -ra -q -p no:cacheprovider --timeout=900 --continue-on-collection-errors",
            "source_commits": [],
            "add_only": True,
        },
        "engines": [
            {"name": "TLC 1.8 (tla2tools.jar)", "path": "/opt/veriftools/tla/tla2tools.jar",
             "serves_properties": sorted(CLAIMED), "kind_free_text": "explicit-state model checker for the TLA+ modules in /verif/spec; also evaluates the trace specifications"},
            {"name": "Apalache 0.58", "path": "/opt/veriftools/apalache", "serves_properties": ["C12"],
             "kind_free_text": "symbolic checker: inductive invariant spec/apalache/TgMapInd.tla (names unique under unbounded histories of the list model); run inside ./check C12, recorded in the evidence notes"},
            {"name": "specification growth (not claimed properties)", "path": "/verif/tools/extras.sh", "serves_properties": [],
             "kind_free_text": "./check X01..X08 X10 X11 (DESIGN section 17): splitTierEntries, spellCheckEntries, znormWindowFilter, findAll (PlusCal, liveness), first open of a KlattGrid, getPointsInInterval, the KlattGrid containers' tier map, generatePIMeasures, and refinement replay of TierImpl / TgImpl (the real step equals the Impl action)"},
            {"name": "harness", "path": "/verif/harness", "serves_properties": sorted(CLAIMED),
             "kind_free_text": "Python drivers: concretize TLC-emitted transitions, execute them on praatio from /repo, project results, hand NDJSON traces to TLC"},
        ],
        "checks": checks,
        "notes": "All checks share ./check <id>; VERIF_SEED seeds the random vectors; exit 2 = machinery failure. Genuine defects repaired in /repo are listed in known_findings.json (status fixed).",
        "not_applicable": [{"property_id": p["id"], "reason": na_reasons.get(p["id"], "check not built yet (build in progress)")}
                           for p in props if p["id"] not in CLAIMED],
    }
    json.dump(m, open(os.path.join(HERE, "MANIFEST.json"), "w"), indent=1)
    print("claimed:", len(checks), "not applicable:", len(m["not_applicable"]))

if __name__ == "__main__":
    main()
