#!/usr/bin/env python3
"""Hand-written calibration mutants (DESIGN.md section 12): each is one small textual change of praatio.  Writes
/verif/mutants/<name>.diff (made in a scratch worktree) and /verif/mutants/catalogue.json."""
import json, os, subprocess, sys, tempfile

M = [
 # name, file, old, new, properties whose check should catch it
 ("c01_numtostr_10_digits", "praatio/utilities/my_math.py", 'retVal = "%s" % repr(inputNum)', 'retVal = "%.10f" % inputNum', ["C01", "C02"]),
 ("c01_isclose_tolerance_1e-9", "praatio/utilities/my_math.py", "rel_tol: float = 1e-14", "rel_tol: float = 1e-9", ["C01", "C02"]),
 ("c02_long_size_off_by_one", "praatio/utilities/textgrid_io.py", 'outputTxt += tab * 2 + "points: size = %d \\n" % len(entries)', 'outputTxt += tab * 2 + "points: size = %d \\n" % (len(entries) + 1)', ["C02"]),
 ("c02_short_name_not_escaped", "praatio/utilities/textgrid_io.py", "text += '\"%s\"\\n' % utils.escapeQuotes(tier[\"name\"])", "text += '\"%s\"\\n' % tier[\"name\"]", ["C02"]),
 ("c03_crlf_not_normalised_long", "praatio/utilities/textgrid_io.py", '    """\n    Reads a normal textgrid\n    """\n    data = data.replace("\\r\\n", "\\n")', '    """\n    Reads a normal textgrid\n    """', ["C03"]),
 ("c03_remove_blanks_tests_first_field", "praatio/utilities/textgrid_io.py", 'return entry[-1] != ""', 'return entry[0] != ""', ["C03"]),
 ("c04_sliver_test_inclusive", "praatio/utilities/textgrid_io.py", "if end - start < minLength:", "if end - start <= minLength:", ["C04"]),
 ("c04_span_check_removed", "praatio/utilities/textgrid_io.py", "        if float(newEntries[-1][1]) > float(maxTime):\n            raise errors.ParsingError(", "        if False:\n            raise errors.ParsingError(", ["C04"]),
 ("c05_insert_span_update_dropped", "praatio/data_classes/interval_tier.py", "        if self._entries[-1][1] > self.maxTimestamp:\n            self.maxTimestamp = self._entries[-1][1]", "        pass", ["C05", "C11"]),
 ("c06_lax_branch_strict_compare", "praatio/utilities/utils.py", "if interval.end <= start or interval.start >= end:\n            continue", "if interval.end < start or interval.start > end:\n            continue", ["C06"]),
 ("c06_point_bounds_strict", "praatio/data_classes/point_tier.py", "if timestamp >= cropStart and timestamp <= cropEnd:", "if timestamp > cropStart and timestamp < cropEnd:", ["C06"]),
 ("c07_categorical_truncates", "praatio/data_classes/interval_tier.py", "if collisionMode == constants.EraseCollision.TRUNCATE:\n                # Check left edge", "if collisionMode != constants.EraseCollision.ERROR:\n                # Check left edge", ["C07"]),
 ("c07_newmax_not_reduced", "praatio/data_classes/interval_tier.py", "newTier = newTier.new(entries=newEntryList, maxTimestamp=newMax)", "newTier = newTier.new(entries=newEntryList)", ["C07"]),
 ("c08_after_point_strict", "praatio/data_classes/interval_tier.py", "            # Entry exists after the insertion point\n            elif interval.start >= start:", "            # Entry exists after the insertion point\n            elif interval.start > start:", ["C08"]),
 ("c08_point_le_to_lt", "praatio/data_classes/point_tier.py", "            if point.time <= start:\n                newEntries.append(point)", "            if point.time < start:\n                newEntries.append(point)", ["C08"]),
 ("c09_drop_test_strict", "praatio/data_classes/interval_tier.py", "            if newEnd <= 0:\n                continue", "            if newEnd < 0:\n                continue", ["C09", "C05"]),
 ("c09_newmax_capped", "praatio/data_classes/interval_tier.py", "        if newMax < self.maxTimestamp:\n            newMax = self.maxTimestamp\n\n        return IntervalTier(self.name, newEntryList, newMin, newMax)", "        newMax = self.maxTimestamp\n\n        return IntervalTier(self.name, newEntryList, newMin, newMax)", ["C09"]),
 ("c09_only_matching_inverted", "praatio/data_classes/textgrid.py", "        if onlyMatchingNames is False:\n            finalTierNames = combinedTierNames", "        if onlyMatchingNames is True:\n            finalTierNames = combinedTierNames", ["C09"]),
 ("c10_intersection_strict_crop", "praatio/data_classes/interval_tier.py", "            subTier = self.crop(\n                interval.start, interval.end, CropCollision.TRUNCATED, False\n            )\n\n            # Combine the labels", "            subTier = self.crop(\n                interval.start, interval.end, CropCollision.STRICT, False\n            )\n\n            # Combine the labels", ["C10"]),
 ("c10_difference_categorical", "praatio/data_classes/interval_tier.py", "collisionMode=constants.EraseCollision.TRUNCATE,\n                doShrink=False,", "collisionMode=constants.EraseCollision.CATEGORICAL,\n                doShrink=False,", ["C10"]),
 ("c11_replace_deletes_first_only", "praatio/data_classes/interval_tier.py", "        elif collisionMode == constants.IntervalCollision.REPLACE:\n            for matchEntry in matchList:\n                self.deleteEntry(matchEntry)", "        elif collisionMode == constants.IntervalCollision.REPLACE:\n            for matchEntry in matchList[:1]:\n                self.deleteEntry(matchEntry)", ["C11", "C05"]),
 ("c11_point_merge_order", "praatio/data_classes/point_tier.py", '"-".join([oldPoint.label, newPoint.label])', '"-".join([newPoint.label, oldPoint.label])', ["C11"]),
 ("c12_replace_index_off_by_one", "praatio/data_classes/textgrid.py", "            self.addTier(newTier, tierIndex, reportingMode)\n        except Exception:", "            self.addTier(newTier, tierIndex + 1, reportingMode)\n        except Exception:", ["C12"]),
 ("c12_crop_ignores_rebase", "praatio/data_classes/textgrid.py", "newTier = tier.crop(cropStart, cropEnd, mode, rebaseToZero)", "newTier = tier.crop(cropStart, cropEnd, mode, False)", ["C12", "C06"]),
 ("c12_insertspace_span_not_grown", "praatio/data_classes/textgrid.py", "        newTG.maxTimestamp = self.maxTimestamp + duration\n", "        newTG.maxTimestamp = self.maxTimestamp\n", ["C12", "C08"]),
 ("c13_entries_live_list", "praatio/data_classes/textgrid_tier.py", "        return tuple(self._entries)", "        return self._entries", ["C13"]),
 ("c13_erase_deletes_from_self", "praatio/data_classes/interval_tier.py", "            for interval in matchList[::-1]:\n                newTier.deleteEntry(interval)", "            for interval in matchList[::-1]:\n                newTier.deleteEntry(interval)\n                if len(matchList) > 2:\n                    self.deleteEntry(interval)", ["C13"]),
 ("c14_threshold_exclusive", "praatio/utilities/my_math.py", "    return isclose(a, b) or a < b", "    return a < b", ["C14"]),
 ("c14_align_adjusts_reference", "praatio/praatio_scripts.py", "        if tier.name == tierName:\n            continue\n", "", ["C14"]),
 ("c14_morph_adjust_sign", "praatio/data_classes/interval_tier.py", "cumulativeAdjustAmount += newIntervalDuration - currIntervalDuration", "cumulativeAdjustAmount -= newIntervalDuration - currIntervalDuration", ["C14"]),
 ("c15_regex_case_sensitive", "praatio/data_classes/textgrid_tier.py", "matchList = re.findall(matchLabel, entry.label, re.I)", "matchList = re.findall(matchLabel, entry.label)", ["C15"]),
 ("c15_nonentries_no_tail", "praatio/data_classes/interval_tier.py", "        if entries[-1].end < self.maxTimestamp:\n            invertedEntryList.append(", "        if False:\n            invertedEntryList.append(", ["C15"]),
 ("c15_eq_ignores_name", "praatio/data_classes/textgrid_tier.py", "        isEqual &= self.name == other.name\n", "", ["C15"]),
 ("c15_values_in_interval_strict", "praatio/utilities/utils.py", "        if start <= time and end >= time:", "        if start < time and end > time:", ["C15"]),
 ("c16_index_truncates", "praatio/audio.py", "return round(startTime * self.frameRate) * self.sampleWidth", "return int(startTime * self.frameRate) * self.sampleWidth", ["C16"]),
 ("c16_delete_one_more", "praatio/audio.py", "        self.frames = self.frames[:i] + self.frames[j:]", "        self.frames = self.frames[:i] + self.frames[j + self.sampleWidth:]", ["C16"]),
 ("c17_generator_end_instead_of_duration", "praatio/audio.py", "audioFrames += replaceFunc(end - start)", "audioFrames += replaceFunc(end)", ["C17"]),
 ("c17_silence_truncates", "praatio/audio.py", "return zeroBinValue * round(self.frameRate * duration)", "return zeroBinValue * int(self.frameRate * duration)", ["C17"]),
 ("c18_choose_farther", "praatio/utilities/utils.py", "        if aDiff <= bDiff:\n            closestTime = candidateA\n        else:\n            closestTime = candidateB", "        if aDiff <= bDiff:\n            closestTime = candidateB\n        else:\n            closestTime = candidateA", []),
 ("c18_returns_window_start", "praatio/audio.py", "return (round(startTime * frameRate) + zeroI) / float(frameRate)", "return round(startTime * frameRate) / float(frameRate)", ["C18"]),
 ("c18_shift_times_wrong_boundary", "praatio/praatio_scripts.py", "                if entry[0] == timeV:\n                    newStart, newStop = newTimeV, entry[1]", "                if entry[0] == timeV:\n                    newStart, newStop = entry[0], newTimeV", ["C18"]),
 ("c19_klatt_12_digits", "praatio/data_classes/klattgrid.py", '            outputList.append("        value = %s" % repr(entry[1]))', '            outputList.append("        value = %.12g" % entry[1])', ["C19"]),
 ("c19_modify_touches_times", "praatio/data_classes/klattgrid.py", "(timestamp, modFunc(float(value))) for timestamp, value in self.entries", "(modFunc(float(timestamp)), modFunc(float(value))) for timestamp, value in self.entries", ["C19"]),
 ("c20_window_offset_ceil", "praatio/utilities/my_math.py", "offset = int(math.floor(window / 2.0))", "offset = int(math.ceil(window / 2.0))", ["C20"]),
 ("c20_sample_variance", "praatio/pitch_and_intensity.py", "variance = sum([(val - meanF0) ** 2 for val in f0Values]) / counts", "variance = sum([(val - meanF0) ** 2 for val in f0Values]) / max(counts - 1, 1)", ["C20"]),
 ("c20_jump_one_direction", "praatio/pitch_and_intensity.py", "if (lastPitch <= floorCutoff) or (lastPitch >= ceilingCutoff):", "if lastPitch <= floorCutoff:", ["C20"]),
]


def main():
    wt = tempfile.mkdtemp(prefix="praatio-mk-", dir="/tmp")
    os.rmdir(wt)
    subprocess.run(["git", "-C", "/repo", "worktree", "add", "-q", wt, "HEAD"], check=True)
    cat = []
    try:
        for name, fn, old, new, props in M:
            p = os.path.join(wt, fn)
            s = open(p).read()
            if s.count(old) != 1:
                print("SKIP %s: pattern occurs %d times" % (name, s.count(old)))
                continue
            open(p, "w").write(s.replace(old, new))
            d = subprocess.run(["git", "-C", wt, "diff"], stdout=subprocess.PIPE, text=True).stdout
            open("/verif/mutants/%s.diff" % name, "w").write(d)
            subprocess.run(["git", "-C", wt, "checkout", "-q", "--", "."], check=True)
            cat.append(dict(name=name, file=fn, properties=props))
        json.dump(cat, open("/verif/mutants/catalogue.json", "w"), indent=1)
        print(len(cat), "mutants")
    finally:
        subprocess.run(["git", "-C", "/repo", "worktree", "remove", "--force", wt])


if __name__ == "__main__":
    main()
