#!/usr/bin/env python3
"""Builds /verif/seeded/<id>-<x>/ from the sub-agents' deliveries in /tmp/seedwork: confirms each change in a scratch
worktree (tests still pass, demo fails with / passes without), runs the property's quick check on /repo with the change
applied (always reverted), and writes meta.json.  Also builds seeded/reverts/ from the reverse patches of the fix: commits."""
import json, os, re, shutil, subprocess, sys

SEED = "/tmp/seedwork"
OUT = "/verif/seeded"

def sh(cmd, **kw):
    return subprocess.run(cmd, shell=True, stdout=subprocess.PIPE, stderr=subprocess.STDOUT, text=True, **kw).stdout

def run_check(patch, prop):
    out = sh("/verif/tools/seedtest.sh %s %s quick" % (patch, prop))
    clauses = sorted(set(re.findall(r"clause=(\S+)", out)))
    m = re.search(r"exit=(\d+)", out)
    nv = re.search(r"(\d+) violating events", out)
    return dict(exit=int(m.group(1)) if m else -1, clauses=clauses, violating_events=int(nv.group(1)) if nv else 0)

def main():
    only = sys.argv[1:] or None
    props = {json.loads(l)["id"]: json.loads(l) for l in open("/verif/properties.jsonl")}
    table = []
    for pid in sorted(props):
        for x in ("a", "b"):
            src = os.path.join(SEED, pid, x)
            if not os.path.isdir(src) or (only and pid not in only):
                continue
            dst = os.path.join(OUT, "%s-%s" % (pid, x))
            os.makedirs(dst, exist_ok=True)
            ported = os.path.join(src, "patch.ported.diff")
            if os.path.exists(ported):
                shutil.copy(os.path.join(src, "patch.diff"), os.path.join(dst, "patch.as-delivered.diff"))
                shutil.copy(ported, os.path.join(dst, "patch.diff"))
            else:
                shutil.copy(os.path.join(src, "patch.diff"), os.path.join(dst, "patch.diff"))
            shutil.copy(os.path.join(src, "demo.py"), os.path.join(dst, "demo.py"))
            notes = open(os.path.join(src, "NOTES.md")).read() if os.path.exists(os.path.join(src, "NOTES.md")) else ""
            open(os.path.join(dst, "NOTES.md"), "w").write(notes)
            conf = sh("/verif/tools/confirm_seed.sh %s" % dst).strip()
            chk = run_check(os.path.join(dst, "patch.diff"), pid)
            meta = dict(property=pid, title=props[pid]["title"], source="fresh sub-agent given only the property text and a scratch worktree",
                        needs_to_manifest=first_para(notes), confirmation=conf,
                        confirmed=("tests=[367 passed" in conf and "demo_with_patch_rc=1" in conf and "demo_without_patch_rc=0" in conf),
                        ported=os.path.exists(ported),
                        ran=["tools/confirm_seed.sh (scratch worktree: git apply, full pytest suite, demo with and without the patch)",
                             "tools/seedtest.sh patch.diff %s quick (git -C /repo apply; ./check %s --tier quick; git -C /repo checkout -- .)" % (pid, pid)],
                        check_result=chk, detected=chk["exit"] == 1)
            json.dump(meta, open(os.path.join(dst, "meta.json"), "w"), indent=1)
            table.append((pid + "-" + x, meta["confirmed"], meta["detected"], ", ".join(chk["clauses"][:3])))
            print(table[-1], flush=True)
    json.dump(table, open(os.path.join(OUT, "detection_table.json"), "w"), indent=1)

def first_para(notes):
    lines = [l.strip() for l in notes.splitlines() if l.strip() and not l.startswith("#")]
    return " ".join(lines[:6])[:900]



# --------------------------------------------------------------------------- reverse patches of the fix: commits

REVERTS = [  # (commit, properties whose quick check is run)
    ("2cb5125", ["C06", "C17"]), ("0b90319", ["C09"]), ("b05dfcc", ["C07"]), ("2522a98", ["C08"]), ("74f415f", ["C11"]),
    ("855a86a", ["C05"]), ("8c1da84", ["C13"]), ("3bece1a", ["C13"]), ("330fbc3", ["C01", "C03"]), ("184c93f", ["C03"]),
    ("e922775", ["C16"]), ("304d28c", ["C19"]), ("95cd20b", ["C14"]), ("c5b083a", ["C12"]), ("d31ff6b", ["C04"]),
    ("4963296", ["C03"]), ("4e959e4", ["C01"]), ("d1d7686", ["C16"]), ("dfc81a2", ["C18"]), ("3249f17", ["C19"]),
    ("a399f10", ["C19"]), ("b81f3af", ["C20"]), ("4671d0b", ["C14"]), ("e34c909", ["C11"]),
]


def build_reverts():
    out = os.path.join(OUT, "reverts")
    os.makedirs(out, exist_ok=True)
    table = []
    for commit, props_ in REVERTS:
        subj = sh("git -C /repo log -1 --format=%s " + commit).strip()
        d = os.path.join(out, commit)
        os.makedirs(d, exist_ok=True)
        patch = os.path.join(d, "patch.diff")
        open(patch, "w").write(sh("git -C /repo diff %s %s~1" % (commit, commit)))
        applies = subprocess.run("git -C /repo apply --check " + patch, shell=True).returncode == 0
        results = {}
        if applies:
            for p in props_:
                results[p] = run_check(patch, p)
        meta = dict(kind="reverse patch of a fix: commit (re-introduces the repaired defect)", commit=commit, subject=subj,
                    applies_to_current_tree=applies, check_results=results,
                    detected=any(r["exit"] == 1 for r in results.values()) if applies else None,
                    note="" if applies else "does not apply any more because a later fix: commit touched the same lines; it was detected when it was made (DESIGN.md section 15)")
        json.dump(meta, open(os.path.join(d, "meta.json"), "w"), indent=1)
        table.append((commit, applies, meta["detected"]))
        print(table[-1], flush=True)
    json.dump(table, open(os.path.join(out, "detection_table.json"), "w"), indent=1)


if __name__ == "__main__":
    if sys.argv[1:2] == ["reverts"]:
        build_reverts()
    else:
        main()
