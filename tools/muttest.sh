#!/bin/bash
# usage: tools/muttest.sh <patch.diff> <Cxx> [<Cyy> ...]
# Applies the patch to a scratch worktree of /repo (outside /repo and /verif), runs the given quick checks against that copy
# (VERIF_REPO), with evidence written to a scratch directory, and removes everything afterwards.  /repo is never touched.
patch="$1"; shift
wt=$(mktemp -d /tmp/praatio-mut-XXXXXX); rmdir "$wt"
ev=$(mktemp -d /tmp/praatio-mutev-XXXXXX)
git -C /repo worktree add -q "$wt" HEAD || exit 2
if ! git -C "$wt" apply "$patch" 2>/dev/null && ! git -C "$wt" apply --3way "$patch" 2>/dev/null; then
  echo "PATCH DOES NOT APPLY"; git -C /repo worktree remove --force "$wt"; rm -rf "$ev"; exit 3; fi
tests=$(cd "$wt" && PYTHONPATH="$wt" /venv/bin/python -m pytest -q -p no:cacheprovider -x 2>&1 | tail -1)
echo "repo tests with the patch: $tests"
cd /verif
for p in "$@"; do
  out=$(VERIF_REPO="$wt" VERIF_EVIDENCE_DIR="$ev" ./check "$p" --tier quick 2>&1)
  rc=$?
  echo "$p rc=$rc :: $(echo "$out" | grep -E "DETAIL|MACHINERY|: ok;" | sed 's/DETAIL property=[A-Z0-9]* //' | head -4 | tr '\n' ' ' | cut -c1-260)"
done
git -C /repo worktree remove --force "$wt"; rm -rf "$ev"
