#!/usr/bin/env python3
"""Re-runs every property-preserving patch of seeded/benign, seeded/benign2 and seeded/benign3 through the quick checks recorded for it
(scratch worktrees via tools/muttest.sh; /repo untouched) and rewrites the two results.json files.  Exit 1 if any check
other than the documented exception (audio_round_half_up on C18) reports a violation."""
import json, os, re, subprocess, sys

EXPECTED_ALARMS = {("audio_round_half_up", "C18")}        # mis-classified by me: the patch does break C18 (DESIGN 16.2)


def run(patch, props):
    out = subprocess.run(["/verif/tools/muttest.sh", patch] + props, stdout=subprocess.PIPE, stderr=subprocess.STDOUT, text=True).stdout
    tests = re.search(r"repo tests with the patch: (.*)", out)
    res = {}
    for p in props:
        m = re.search(r"^%s rc=(\d+) :: (.*)$" % p, out, re.M)
        rc = int(m.group(1)) if m else -1
        res[p] = "ok" if rc == 0 else "VIOLATION " + " ".join(sorted(set(re.findall(r"clause=(\S+)", m.group(2))))[:3]) if rc == 1 else "rc=%d" % rc
    return (tests.group(1).strip() if tests else "?"), res


ONLY = set(sys.argv[1:])          # optional: run only these properties' checks (the other recorded results are kept)


def run_kept(patch, rec):
    props = sorted(p for p in rec["checks"] if not ONLY or p in ONLY)
    if not props:
        return rec.get("tests", "?"), dict(rec["checks"])
    tests, res = run(patch, props)
    return tests, dict(rec["checks"], **res)


def main():
    bad = 0
    f1 = "/verif/seeded/benign/results.json"
    r1 = json.load(open(f1))
    for name, rec in r1.items():
        tests, res = run_kept("/verif/seeded/benign/%s.diff" % name, rec)
        rec["checks"], rec["tests"] = res, tests
        for p, v in res.items():
            if v != "ok" and (name, p) not in EXPECTED_ALARMS:
                bad += 1
        print(name, tests, res, flush=True)
        json.dump(r1, open(f1, "w"), indent=1)
    f2 = "/verif/seeded/benign2/results.json"
    r2 = json.load(open(f2))
    for name, rec in sorted(r2.items()):
        tests, res = run_kept("/verif/seeded/benign2/%s/patch.diff" % name, rec)
        rec["checks"], rec["tests"] = res, tests
        bad += sum(1 for v in res.values() if v != "ok")
        print(name, tests, res, flush=True)
        json.dump(r2, open(f2, "w"), indent=1, sort_keys=True)
    f3 = "/verif/seeded/benign3/results.json"
    r3 = json.load(open(f3))
    for name, rec in sorted(r3.items()):
        tests, res = run_kept("/verif/seeded/benign3/%s/patch.diff" % name, rec)
        rec["checks"], rec["tests"] = res, tests
        bad += sum(1 for v in res.values() if v != "ok")
        print(name, tests, res, flush=True)
        json.dump(r3, open(f3, "w"), indent=1, sort_keys=True)
    print("unexpected alarms:", bad)
    return 1 if bad else 0


if __name__ == "__main__":
    sys.exit(main())
