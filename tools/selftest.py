#!/usr/bin/env python3
"""Demonstrates that the binding binds: a recorded trace is accepted, and (1) corrupting one field of one event, (2) flipping a
status, (3) dropping an entry, (4) an event TLC cannot evaluate is rejected - by TLC, with the expected clause - while the events behind it are still judged."""
import copy, json, os, shutil, sys
sys.path.insert(0, os.path.dirname(os.path.dirname(os.path.abspath(__file__))))
from harness import common, tier as T

def main():
    work = common.scratch()
    try:
        vec = {"op": "crop", "args": {"a": 1, "b": 4, "mode": "truncated", "rebase": False},
               "pre": {"kind": "I", "name": "t", "lo": 0, "hi": 6, "ents": [{"s": 0, "e": 2, "l": "a"}, {"s": 3, "e": 5, "l": "b"}]}, "arg": T.NONE}
        ev, _ = T.run_vector(vec, T.EMBS["dec"], T.POOLS["uni"], 0)
        good = [dict(ev, id=i) for i in range(3)]
        v, n, _ = common.validate_traces("Trace_Tier", good, work)
        assert v == {} and n == 3, ("a faithful trace must be accepted", v)
        cases = []
        e1 = copy.deepcopy(ev); e1["ret"]["ents"][0]["e"] += 1; cases.append(("timestamp +1 unit", e1, "C06_kept_entries"))
        e2 = copy.deepcopy(ev); e2["ret"]["ents"].pop(); cases.append(("dropped entry", e2, "C06_kept_labels"))
        e3 = copy.deepcopy(ev); e3["ret"]["ents"][1]["l"] = "a"; cases.append(("swapped label", e3, "C06_kept_labels"))
        e4 = copy.deepcopy(ev); e4["st"] = "ArgumentError"; cases.append(("status flipped", e4, "C06_never_an_error"))
        e5 = copy.deepcopy(ev); e5["post"]["ents"].pop(); cases.append(("receiver mutated", e5, "C13_receiver_unchanged"))
        for name, e, clause in cases:
            v, _, _ = common.validate_traces("Trace_Tier", [dict(e, id=0)], work)
            assert clause in v.get(0, []), (name, "expected", clause, "got", v)
            print("rejected as expected:", name, "->", clause)
        # an unconsumed trace (schema violation: a field TLC needs is missing) is a machinery failure, never a pass
        bad = dict(ev, id=0); del bad["pre"]
        v, _, _ = common.validate_traces("Trace_Tier", [bad, dict(ev, id=1)], work)
        assert v.get(0) == ["NOT_EVALUABLE"] and 1 not in v, ("a malformed event must be rejected and the events behind it still judged", v)
        print("rejected as expected: event without 'pre' -> NOT_EVALUABLE (counted as a violation), the next event is still judged")
        # ---- audio family: a recorded getSamples call is accepted; one wrong sample, one missing sample are rejected
        from harness import audiofam as A
        A.mods()
        aev = A.run_edit({"op": "getSamples", "args": {"t0": 4, "t1": 16}, "pre": [5, 9, 2, 7, 11]}, 8, 2, 0, work)
        v, _, _ = common.validate_traces("Trace_Audio", [aev], work)
        assert v == {}, ("a faithful audio event must be accepted", v)
        for name, mut in (("one sample replaced", lambda e: e["ret"].__setitem__(0, 11)), ("one sample dropped", lambda e: e["ret"].pop())):
            e = copy.deepcopy(aev); mut(e); e["n"] = len(e["ret"])
            v, _, _ = common.validate_traces("Trace_Audio", [e], work)
            assert "C16_get_returns_samples_between_nearest_indices" in v.get(0, []), (name, v)
            print("rejected as expected (audio):", name, "-> C16_get_returns_samples_between_nearest_indices")
        # ---- file family: a recorded save is accepted; one changed character of the written text is rejected
        from harness import filefam as F
        textgrid = T.praatio()[0]
        tg = textgrid.Textgrid(0.0, 1.5)
        tg.addTier(textgrid.IntervalTier("words", [(0.1, 0.5, 'say "hi"'), (0.5, 1.0, "b")], 0.0, 1.5))
        fev, _ = F.save_event(tg, 0, True, None, None, use_t=True, workdir=work, features={})
        v, _, _ = common.validate_traces("Trace_File", [fev], work)
        assert not [c for c in v.get(0, []) if c.startswith("C02_")], ("a faithful save event must be accepted", v)
        e = copy.deepcopy(fev)
        txt = e["texts"]["short"]
        k = next(i for i, ch in enumerate(txt) if ch[0] == "Q")           # drop one quote character of the short file
        e["texts"]["short"] = txt[:k] + txt[k + 1:]
        v, _, _ = common.validate_traces("Trace_File", [e], work)
        assert [c for c in v.get(0, []) if c.startswith("C02_short")], ("a file with a quote removed must be rejected", v)
        print("rejected as expected (file): one quote character removed from the short file ->", [c for c in v[0] if c.startswith("C02_short")][:2])
        print("selftest ok")
        return 0
    finally:
        shutil.rmtree(work, ignore_errors=True)

if __name__ == "__main__":
    sys.exit(main())
