#!/usr/bin/env python3
"""Demonstrates that the binding binds: a recorded trace is accepted, and (1) corrupting one field of one event, (2) flipping a
status, (3) dropping an entry, (4) an event TLC cannot evaluate is rejected - by TLC, with the expected clause - while the events behind it are still judged."""
import copy, json, os, shutil, sys
sys.path.insert(0, os.path.dirname(os.path.dirname(os.path.abspath(__file__))))
from harness import common, tier as T

def main():
    work = common.scratch()
    try:
        vec = {"op": "crop", "args": {"a": 1, "b": 4, "mode": "truncated", "rebase": False},
               "pre": {"kind": "I", "name": "t", "lo": 0, "hi": 6, "ents": [{"s": 0, "e": 2, "l": "a"}, {"s": 3, "e": 5, "l": "b"}]}, "arg": T.NONE}
        ev, _ = T.run_vector(vec, T.EMBS["dec"], T.POOLS["uni"], 0)
        good = [dict(ev, id=i) for i in range(3)]
        v, n, _ = common.validate_traces("Trace_Tier", good, work)
        assert v == {} and n == 3, ("a faithful trace must be accepted", v)
        cases = []
        e1 = copy.deepcopy(ev); e1["ret"]["ents"][0]["e"] += 1; cases.append(("timestamp +1 unit", e1, "C06_kept_entries"))
        e2 = copy.deepcopy(ev); e2["ret"]["ents"].pop(); cases.append(("dropped entry", e2, "C06_kept_labels"))
        e3 = copy.deepcopy(ev); e3["ret"]["ents"][1]["l"] = "a"; cases.append(("swapped label", e3, "C06_kept_labels"))
        e4 = copy.deepcopy(ev); e4["st"] = "ArgumentError"; cases.append(("status flipped", e4, "C06_never_an_error"))
        e5 = copy.deepcopy(ev); e5["post"]["ents"].pop(); cases.append(("receiver mutated", e5, "C13_receiver_unchanged"))
        for name, e, clause in cases:
            v, _, _ = common.validate_traces("Trace_Tier", [dict(e, id=0)], work)
            assert clause in v.get(0, []), (name, "expected", clause, "got", v)
            print("rejected as expected:", name, "->", clause)
        # an unconsumed trace (schema violation: a field TLC needs is missing) is a machinery failure, never a pass
        bad = dict(ev, id=0); del bad["pre"]
        v, _, _ = common.validate_traces("Trace_Tier", [bad, dict(ev, id=1)], work)
        assert v.get(0) == ["NOT_EVALUABLE"] and 1 not in v, ("a malformed event must be rejected and the events behind it still judged", v)
        print("rejected as expected: event without 'pre' -> NOT_EVALUABLE (counted as a violation), the next event is still judged")
        print("selftest ok")
        return 0
    finally:
        shutil.rmtree(work, ignore_errors=True)

if __name__ == "__main__":
    sys.exit(main())
