#!/usr/bin/env python3
"""Vacuity check: runs every model-checking module once (quick-tier constants, one slice, no emission) with TLC's -coverage 1 and
lists, per top-level action, how often it was taken and how many distinct states it produced.  An action with count 0 means the
clauses behind it were never exercised at design level.  Writes /verif/coverage/summary.json and prints a table."""
import json, os, re, shutil, sys
sys.path.insert(0, os.path.dirname(os.path.dirname(os.path.abspath(__file__))))
from harness import common, checks_tier as CT, checks_tg as CG, checks_file as CF, checks_audio as CA

ACTION = re.compile(r"^<(\w+) line (\d+), col \d+ to line \d+, col \d+ of module (\w+)(?: \((\d+) (\d+) (\d+) (\d+)\))?>: (\d+):(\d+)", re.M)
_SRC = {}


def disjunct_name(mod, l1, c1, l2, c2):
    """the text of the disjunct of Next that TLC reports as a sub-action"""
    if mod not in _SRC:
        _SRC[mod] = open(os.path.join(common.SPEC, mod + ".tla")).read().split("\n")
    lines = _SRC[mod]
    txt = lines[l1 - 1][c1 - 1:c2] if l1 == l2 else lines[l1 - 1][c1 - 1:]
    return re.sub(r"\s+", " ", txt.strip())[:40]


def run(module, cfg, work, label, out):
    r = common.run_tlc(module, cfg, work, workers=4, timeout=3600, extra=("-coverage", "1"))
    if common.tlc_failed(r):
        sys.stderr.write(r["out"][-1200:])
        print("%-28s TLC did not complete with -coverage (see stderr); skipped" % label)
        out[label] = dict(module=module, failed=True, actions={})
        return
    acts = {}
    for name, line, mod, l1, c1, l2, c2, distinct, taken in ACTION.findall(r["out"]):
        if l1:
            name = name + ": " + disjunct_name(mod, int(l1), int(c1), int(l2), int(c2))
        a = acts.setdefault(name, dict(distinct=0, taken=0))
        a["distinct"] = max(a["distinct"], int(distinct))
        a["taken"] = max(a["taken"], int(taken))
    # TLC reports a disjunction of operators as one action; per-operator counts come from the line statistics:
    # the largest evaluation count among the lines of each `Do... ==` definition of the module
    src = open(os.path.join(common.SPEC, module + ".tla")).read().split("\n")
    defs = [(i + 1, m.group(1)) for i, l in enumerate(src) for m in [re.match(r"^(Do[A-Z]\w+) ==", l)] if m]
    ends = {name: (defs[k + 1][0] - 1 if k + 1 < len(defs) else ln + 3) for k, (ln, name) in enumerate(defs)}
    ops = {name: 0 for _, name in defs}
    for ln, cnt in re.findall(r"line (\d+), col \d+ to line \d+, col \d+ of module %s: (\d+)" % module, r["out"]):
        for start, name in defs:
            if start <= int(ln) <= ends[name] and not src[int(ln) - 1].startswith(tuple(n for _, n in defs if n != name)):
                ops[name] = max(ops[name], int(cnt))
    for name, c in sorted(ops.items()):
        acts["operator " + name] = dict(distinct=c, taken=c)
    out[label] = dict(module=module, states=r["distinct"], actions=acts)
    for name, a in sorted(acts.items()):
        print("%-28s %-46s taken=%-9d distinct=%-9d %s" % (label, name, a["taken"], a["distinct"], "" if a["taken"] else "  <-- NEVER TAKEN"))


def main():
    work = common.scratch()
    out = {}
    try:
        cfg = CT.PROPS["C05"]
        fn = os.path.join(work, "cov_tier.cfg")
        common.write_cfg(fn, dict(N=3, K=2, Ops=set(cfg["ops"]), Kinds={"I", "P"}, Depth=2, OneSpan=False, Slice=0, NSlices=8, Emit=False),
                         invariants=["NoFail", "RecvWF"], properties=CT.MC_PROPERTIES, constraints=["Bound"])
        run("MC_Tier", fn, work, "MC_Tier (all ops, depth 2)", out)
        # (MC_Tg is left out: with -coverage TLC 1.8 does not get past the evaluation of its constant definitions within 10 minutes,
        #  without it the same configuration finishes in seconds; its per-operation counts are in evidence/C12.json instead)
        fsz = CF.SIZES["quick"]
        for mode in ("format", "prep"):
            fn = os.path.join(work, "cov_file_%s.cfg" % mode)
            common.write_cfg(fn, dict(Mode=mode, LabLen=fsz["LabLen"], N=fsz["prepN"], K=fsz["prepK"], Emit=False, Slice=0, NSlices=4), invariants=CF.FILE_INVS)
            run("MC_File", fn, work, "MC_File " + mode, out)
        asz = CA.SIZES["quick"]
        for mode in ("edit", "read"):
            fn = os.path.join(work, "cov_audio_%s.cfg" % mode)
            common.write_cfg(fn, dict(Mode=mode, MaxLen=asz["MaxLen"] if mode == "edit" else asz["readMaxLen"], Depth=2 if mode == "edit" else 1,
                                      MaxIv=asz["MaxIv"], Emit=False, Slice=0, NSlices=2), invariants=["NoFail"], constraints=["Bound"])
            run("MC_Audio", fn, work, "MC_Audio " + mode, out)
        fn = os.path.join(work, "cov_zc.cfg")
        open(fn, "w").write("CONSTANTS\n  MaxLen = 4\n  VMax = 2\n  Steps = {2, 3}\n  Emit = FALSE\nSPECIFICATION Spec\nINVARIANT ResultOK\nPROPERTY Termination\nPROPERTY Progress\nCHECK_DEADLOCK FALSE\n")
        run("ZeroCross", fn, work, "ZeroCross", out)
        fn = os.path.join(work, "cov_scripts.cfg")
        common.write_cfg(fn, dict(N=3, K=2, Emit=False, Slice=0, NSlices=4, Ops={"split", "spell"}), invariants=["NoFail"])
        run("MC_Scripts", fn, work, "MC_Scripts", out)
        fn = os.path.join(work, "cov_fa.cfg")
        open(fn, "w").write('CONSTANTS\n  Alphabet = {"a", "b"}\n  MaxTxt = 5\n  MaxSub = 2\n  Emit = FALSE\nSPECIFICATION Spec\nINVARIANT ResultOK\nPROPERTY Termination\nCHECK_DEADLOCK FALSE\n')
        run("FindAll", fn, work, "FindAll", out)
        os.makedirs("/verif/coverage", exist_ok=True)
        json.dump(out, open("/verif/coverage/summary.json", "w"), indent=1, sort_keys=True)
        # an operator or action counts as exercised if some configuration of its module takes it
        best = {}
        for k, v in out.items():
            for a, c in v["actions"].items():
                best[(v["module"], a)] = max(best.get((v["module"], a), 0), c["taken"])
        never = sorted(k for k, n in best.items() if n == 0)
        print("actions never taken:", never or "none")
        return 1 if never else 0
    finally:
        shutil.rmtree(work, ignore_errors=True)


if __name__ == "__main__":
    sys.exit(main())
