#!/usr/bin/env python3
"""Vacuity check: runs every model-checking module once (quick-tier constants, one slice, no emission) with TLC's -coverage 1 and
lists, per top-level action, how often it was taken and how many distinct states it produced.  An action with count 0 means the
clauses behind it were never exercised at design level.  Writes /verif/coverage/summary.json and prints a table."""
import json, os, re, shutil, sys
sys.path.insert(0, os.path.dirname(os.path.dirname(os.path.abspath(__file__))))
from harness import common, checks_tier as CT, checks_tg as CG, checks_file as CF, checks_audio as CA

ACTION = re.compile(r"^<(\w+) line (\d+), col \d+ to line \d+, col \d+ of module (\w+)>: (\d+):(\d+)", re.M)


def run(module, cfg, work, label, out):
    r = common.run_tlc(module, cfg, work, workers=4, timeout=3600, extra=("-coverage", "1"))
    if common.tlc_failed(r):
        sys.stderr.write(r["out"][-2000:])
        raise SystemExit("TLC failed on " + label)
    acts = {}
    for name, line, mod, distinct, taken in ACTION.findall(r["out"]):
        a = acts.setdefault(name, dict(distinct=0, taken=0))
        a["distinct"] = max(a["distinct"], int(distinct))
        a["taken"] = max(a["taken"], int(taken))
    out[label] = dict(module=module, states=r["distinct"], actions=acts)
    for name, a in sorted(acts.items()):
        print("%-28s %-16s taken=%-9d distinct=%-9d %s" % (label, name, a["taken"], a["distinct"], "" if a["taken"] else "  <-- NEVER TAKEN"))


def main():
    work = common.scratch()
    out = {}
    try:
        cfg = CT.PROPS["C05"]
        fn = os.path.join(work, "cov_tier.cfg")
        common.write_cfg(fn, dict(N=3, K=2, Ops=set(cfg["ops"]), Kinds={"I", "P"}, Depth=2, OneSpan=False, Slice=0, NSlices=8, Emit=False),
                         invariants=["NoFail", "RecvWF"], properties=CT.MC_PROPERTIES, constraints=["Bound"])
        run("MC_Tier", fn, work, "MC_Tier (all ops, depth 2)", out)
        sz = CG.SIZES["quick"]
        run("MC_Tg", CG._cfg(work, "cov_map", dict(NNames=2, MaxSlots=3, NVariants=2, Depth=3), CG.MAP_OPS, "map", False), work, "MC_Tg map", out)
        run("MC_Tg", CG._cfg(work, "cov_edit", sz["edit"], CG.EDIT_OPS + ["alignTg", "saveTg", "validateTg"], "edit", False, 0, 4), work, "MC_Tg edit", out)
        fsz = CF.SIZES["quick"]
        for mode in ("format", "prep"):
            fn = os.path.join(work, "cov_file_%s.cfg" % mode)
            common.write_cfg(fn, dict(Mode=mode, LabLen=fsz["LabLen"], N=fsz["prepN"], K=fsz["prepK"], Emit=False, Slice=0, NSlices=4), invariants=CF.FILE_INVS)
            run("MC_File", fn, work, "MC_File " + mode, out)
        asz = CA.SIZES["quick"]
        for mode in ("edit", "read"):
            fn = os.path.join(work, "cov_audio_%s.cfg" % mode)
            common.write_cfg(fn, dict(Mode=mode, MaxLen=asz["MaxLen"] if mode == "edit" else asz["readMaxLen"], Depth=asz["Depth"] if mode == "edit" else 1,
                                      MaxIv=asz["MaxIv"], Emit=False, Slice=0, NSlices=2), invariants=["NoFail"], constraints=["Bound"])
            run("MC_Audio", fn, work, "MC_Audio " + mode, out)
        fn = os.path.join(work, "cov_zc.cfg")
        open(fn, "w").write("CONSTANTS\n  MaxLen = 4\n  VMax = 2\n  Steps = {2, 3}\n  Emit = FALSE\nSPECIFICATION Spec\nINVARIANT ResultOK\nPROPERTY Termination\nPROPERTY Progress\nCHECK_DEADLOCK FALSE\n")
        run("ZeroCross", fn, work, "ZeroCross", out)
        fn = os.path.join(work, "cov_scripts.cfg")
        common.write_cfg(fn, dict(N=3, K=2, Emit=False, Slice=0, NSlices=4, Ops={"split", "spell"}), invariants=["NoFail"])
        run("MC_Scripts", fn, work, "MC_Scripts", out)
        fn = os.path.join(work, "cov_fa.cfg")
        open(fn, "w").write('CONSTANTS\n  Alphabet = {"a", "b"}\n  MaxTxt = 5\n  MaxSub = 2\n  Emit = FALSE\nSPECIFICATION Spec\nINVARIANT ResultOK\nPROPERTY Termination\nCHECK_DEADLOCK FALSE\n')
        run("FindAll", fn, work, "FindAll", out)
        os.makedirs("/verif/coverage", exist_ok=True)
        json.dump(out, open("/verif/coverage/summary.json", "w"), indent=1, sort_keys=True)
        never = [(k, a) for k, v in out.items() for a, c in v["actions"].items() if c["taken"] == 0]
        print("actions never taken:", never or "none")
        return 1 if never else 0
    finally:
        shutil.rmtree(work, ignore_errors=True)


if __name__ == "__main__":
    sys.exit(main())
