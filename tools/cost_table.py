#!/usr/bin/env python3
"""Prints the cost table of DESIGN 13.4 from the evidence files of the last run of every check."""
import json, glob, os
print("| check | tier | wall | TLC states (design level) | TLC transitions | calls judged against the code | distinct non-trivial classes |")
print("|---|---|---|---|---|---|---|")
for f in sorted(glob.glob("/verif/evidence/[CX]*.json")):
    d = json.load(open(f)); c = d["coverage"]
    print("| %s | %s | %d s | %s | %s | %s | %s |" % (d["property_id"], d["tier"], round(d["wall_s"]), "{:,}".format(c.get("states", 0)).replace(",", " "),
          "{:,}".format(c.get("transitions", 0)).replace(",", " "), "{:,}".format(c.get("traces_validated_against_impl", 0)).replace(",", " "),
          c.get("distinct_nontrivial", 0)))
