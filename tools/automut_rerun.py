#!/usr/bin/env python3
"""Re-runs the mutants of the automatic campaign that survived the tests and were not detected, against the current checks
(plus the growth checks where the mutated function is theirs); updates mutants/auto/results.jsonl (field 'rerun')."""
import json, os, re, subprocess, sys
RES = "/verif/mutants/auto/results.jsonl"
EXTRA = {"klattgrid.py": ["X05"], "findAll": ["X04"], "znormalizeCenterVal": ["X03"], "_stepFilter": ["X03"], "znormWindowFilter": ["X03"]}
rows = [json.loads(l) for l in open(RES)]
for r in rows:
    if not r.get("survives_tests") or r.get("detected") or (r.get("rerun") or {}).get("detected"):
        continue
    fn = os.path.join("/verif/mutants/auto/undetected", re.sub(r"[^\w.-]+", "_", r["id"]) + ".diff")
    props = list(r.get("props", [])) + EXTRA.get(os.path.basename(r["file"]), []) + EXTRA.get(r["function"], [])
    props = [p for i, p in enumerate(props) if p not in props[:i]]
    out = subprocess.run(["/verif/tools/muttest.sh", fn] + props, stdout=subprocess.PIPE, stderr=subprocess.STDOUT, text=True).stdout
    per = {}
    for p in props:
        m = re.search(r"^%s rc=(\d+) :: (.*)$" % p, out, re.M)
        per[p] = dict(rc=int(m.group(1)) if m else -1, clauses=sorted(set(re.findall(r"clause=(\S+)", m.group(2))))[:3] if m else [])
    r["rerun"] = dict(checks=per, detected=any(v["rc"] == 1 for v in per.values()))
    print(r["id"], r["rerun"]["detected"], {p: v["rc"] for p, v in per.items()}, flush=True)
    json.dump  # keep file in sync after every mutant
    with open(RES, "w") as f:
        for x in rows:
            f.write(json.dumps(x) + "\n")
