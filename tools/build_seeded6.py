#!/usr/bin/env python3
"""Round 6 of the seeded changes (sub-agents' deliveries in /tmp/seed6/<id>/<i|j>): copies each into /verif/seeded/<id>-<x>/,
confirms it in a scratch worktree and runs the property's quick check against a scratch worktree with the change applied
(tools/muttest.sh; /repo is never touched), writes meta.json and extends detection_table.json."""
import json, os, re, shutil, subprocess, sys

SEED = "/tmp/seed6"
OUT = "/verif/seeded"
# what the quick check said when the change was first tried, before anything was strengthened (from the session log)
FIRST_MISSED = set(json.load(open("/verif/seeded/round6_first_missed.json"))) if os.path.exists("/verif/seeded/round6_first_missed.json") else set()

def sh(cmd):
    return subprocess.run(cmd, shell=True, stdout=subprocess.PIPE, stderr=subprocess.STDOUT, text=True).stdout

def first_para(notes):
    lines = [l.strip() for l in notes.splitlines() if l.strip() and not l.startswith("#")]
    return " ".join(lines[:6])[:900]

def main():
    only = sys.argv[1:] or None
    props = {json.loads(l)["id"]: json.loads(l) for l in open("/verif/properties.jsonl")}
    tfile = os.path.join(OUT, "detection_table.json")
    table = [r for r in json.load(open(tfile)) if not r["seed"].endswith(("-k",))]
    for pid in sorted(props):
        for x in ("k",):
            src = os.path.join(SEED, pid, x)
            dst = os.path.join(OUT, "%s-%s" % (pid, x))
            if only and pid not in only:
                if os.path.exists(os.path.join(dst, "meta.json")):
                    m = json.load(open(os.path.join(dst, "meta.json")))
                    table.append(dict(seed=pid + "-" + x, property=pid, confirmed=m["confirmed"], detected=m["detected"], ported=False,
                                      round=6, missed_when_first_tried=m["missed_when_first_tried"], clauses=m["check_result"]["clauses"]))
                continue
            if not os.path.isdir(src):
                continue
            os.makedirs(dst, exist_ok=True)
            for f in ("patch.diff", "demo.py", "NOTES.md"):
                shutil.copy(os.path.join(src, f), os.path.join(dst, f))
            notes = open(os.path.join(dst, "NOTES.md")).read()
            conf = sh("/verif/tools/confirm_seed.sh %s" % dst).strip()
            out = sh("/verif/tools/muttest.sh %s %s" % (os.path.join(dst, "patch.diff"), pid))
            mm = re.search(r"^%s rc=(\d+) :: (.*)$" % pid, out, re.M)
            chk = dict(exit=int(mm.group(1)) if mm else -1, clauses=sorted(set(re.findall(r"clause=(\S+)", mm.group(2)))) if mm else [])
            meta = dict(property=pid, round=6, title=props[pid]["title"],
                        source="fresh sub-agent given the property text, and a scratch worktree only",
                        needs_to_manifest=first_para(notes), confirmation=conf,
                        confirmed=("tests=[367 passed" in conf and "demo_with_patch_rc=1" in conf and "demo_without_patch_rc=0" in conf),
                        ran=["tools/confirm_seed.sh (scratch worktree: git apply, full pytest suite, demo with and without the patch)",
                             "tools/muttest.sh patch.diff %s (scratch worktree with the change; VERIF_REPO points the quick check at it)" % pid],
                        missed_when_first_tried=(pid + "-" + x) in FIRST_MISSED,
                        check_result=chk, detected=chk["exit"] == 1)
            json.dump(meta, open(os.path.join(dst, "meta.json"), "w"), indent=1)
            table.append(dict(seed=pid + "-" + x, property=pid, confirmed=meta["confirmed"], detected=meta["detected"], ported=False,
                              round=6, missed_when_first_tried=meta["missed_when_first_tried"], clauses=chk["clauses"]))
            print(pid + "-" + x, meta["confirmed"], meta["detected"], chk["clauses"][:3], flush=True)
    table.sort(key=lambda r: r["seed"])
    json.dump(table, open(tfile, "w"), indent=1)

main()
