#!/bin/bash
# usage: tools/sweep.sh <tier> <seed>...   -- runs every registered check with each seed, prints one line per run
tier="$1"; shift
cd "$(dirname "$0")/.."
for s in "$@"; do
  for p in C01 C02 C03 C04 C05 C06 C07 C08 C09 C10 C11 C12 C13 C14 C15 C16 C17 C18 C19 C20; do
    start=$(date +%s)
    out=$(VERIF_SEED=$s ./check $p --tier $tier 2>&1)
    rc=$?
    echo "seed=$s $p rc=$rc t=$(( $(date +%s) - start ))s :: $(echo "$out" | grep -E "VIOLATION|MACHINERY|: ok;|violating" | head -3 | tr '\n' ' ' | cut -c1-300)"
  done
done
