#!/bin/bash
# usage: tools/extras.sh [quick|thorough]  -- runs the checks of the specification's growth beyond the listed properties (DESIGN section 17)
tier="${1:-quick}"
cd "$(dirname "$0")/.."
rc=0
for p in X01 X02 X03 X04 X05 X06 X07 X08 X10 X11; do
  out=$(./check $p --tier $tier 2>&1); r=$?
  echo "$p rc=$r :: $(echo "$out" | grep -E "VIOLATION|MACHINERY|: ok;|violating" | head -2 | tr '\n' ' ' | cut -c1-200)"
  [ $r -ne 0 ] && rc=$r
done
exit $rc
