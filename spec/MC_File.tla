------------------------------ MODULE MC_File ------------------------------
(***************************************************************************)
(* Bounded model of the file family.                                       *)
(*  Mode "format": FileMachine.  mem is an abstract document, file is what *)
(*   is on disk (absent, or a layout with its character sequence).         *)
(*   Save(layout) writes mem with the specification's writer, Open decodes *)
(*   the file with the specification's lexer/parser into mem.  Invariants: *)
(*   the decoded content is exactly the content written, for every         *)
(*   document of the universe (labels over quotes, newlines, blanks, '!',  *)
(*   '<', digits, keyword-like words; all number spellings) - i.e. the     *)
(*   formalised format is unambiguous - and Save;Open;Save is a fixed      *)
(*   point.  With Emit the encoded files are printed: they are the inputs  *)
(*   fed to praatio's reader (C03).                                        *)
(*  Mode "prep": every interval tier on a grid x span overrides x          *)
(*   thresholds: the transcription of praatio's save preparation           *)
(*   (FileImpl) satisfies the C04 clauses (FileProp).                      *)
(***************************************************************************)
EXTENDS FileImpl, ReaderImpl, TLC, Json

CONSTANTS Mode, LabLen, N, K, Emit, Slice, NSlices

VARIABLES mem, file, out
vars == <<mem, file, out>>

(* ---------------- "format" universe ---------------------------------------- *)
LabChars == {C("Q", 0), C("NL", 0), C("O", "x"), C("SP", 0), C("O", "item"), C("BANG", 0), C("D", "7"), C("LT", 0), C("O", "=")}
Trimmed(l) == l = <<>> \/ (~IsWS(l[1]) /\ ~IsWS(l[Len(l)]))
LabelsUpTo(n) == { l \in UNION { [1..k -> LabChars] : k \in 0..n } : Trimmed(l) }
Spell == {"int", "dec", "exp", "dexp", "plusexp", "neg0", "trail0"}
Nm(id, sp) == [id |-> id, sp |-> sp]
Names == {<<C("O", "n")>>, <<C("Q", 0), C("O", "item"), C("SP", 0), C("O", "[2]:")>>, <<C("Q", 0), C("O", "IntervalTier"), C("Q", 0)>>}
PtLabels == {<<>>, <<C("Q", 0)>>, <<C("O", "x"), C("Q", 0), C("Q", 0)>>, <<C("O", "text"), C("SP", 0), C("O", "="), C("SP", 0), C("Q", 0), C("O", "x"), C("Q", 0)>>,
             <<C("O", "x"), C("SP", 0), C("O", "IntervalTier")>>}       \* the class word inside a mark (not the whole mark, not quoted)
MkDoc(s1, s2, nm, l1, l2) ==
  [lo |-> Nm(0, s1), hi |-> Nm(9, "int"),
   tiers |-> << [kind |-> "I", name |-> nm, lo |-> Nm(0, "neg0"), hi |-> Nm(9, s2),
                 ents |-> << [s |-> Nm(1, s1), e |-> Nm(2, s2), l |-> l1] >>],
                [kind |-> "P", name |-> <<C("O", "p")>>, lo |-> Nm(0, "int"), hi |-> Nm(9, "dec"),
                 ents |-> IF l2 = <<>> THEN <<>> ELSE << [t |-> Nm(3, s1), l |-> l2] >>] >>]
\* every label up to LabLen with the other dimensions fixed, and every combination of the other dimensions
DocsA == { MkDoc("dec", "int", <<C("O", "n")>>, l1, <<C("Q", 0)>>) : l1 \in LabelsUpTo(LabLen) }
DocsB == { MkDoc(s1, s2, nm, l1, l2) : s1 \in Spell, s2 \in {"int", "dexp", "plusexp"}, nm \in Names,
                                       l1 \in {<<>>, <<C("O", "x"), C("NL", 0), C("Q", 0)>>}, l2 \in PtLabels }
\* duplicate tier names, three tiers, empty tiers, blank-labelled entries
NmN == <<C("O", "n")>>
NmN2 == <<C("O", "n"), C("O", "_2")>>
ThreeTiers(n1, n2, n3) ==
  [lo |-> Nm(0, "int"), hi |-> Nm(9, "int"),
   \* the first two tiers end before the file does (a later tier is wider than an earlier one); runs of two blank entries
   tiers |-> << [kind |-> "I", name |-> n1, lo |-> Nm(0, "int"), hi |-> Nm(3, "int"),
                 ents |-> << [s |-> Nm(0, "int"), e |-> Nm(1, "dec"), l |-> <<>>], [s |-> Nm(1, "dec"), e |-> Nm(2, "dec"), l |-> <<>>],
                             [s |-> Nm(2, "dec"), e |-> Nm(3, "dec"), l |-> <<C("O", "x")>>] >>],
                [kind |-> "P", name |-> n2, lo |-> Nm(0, "int"), hi |-> Nm(3, "dec"),
                 ents |-> << [t |-> Nm(1, "dec"), l |-> <<>>], [t |-> Nm(2, "dec"), l |-> <<>>], [t |-> Nm(3, "dec"), l |-> <<C("O", "x")>>] >>],
                [kind |-> "I", name |-> n3, lo |-> Nm(0, "int"), hi |-> Nm(9, "int"), ents |-> <<>>] >>]
DocsC == { ThreeTiers(n1, n2, n3) : n1 \in {NmN}, n2 \in {NmN, NmN2, <<C("O", "p")>>}, n3 \in {NmN, NmN2, <<C("O", "x")>>} }
\* labels consisting of or surrounded by white space (the reader trims; an all-blank label counts as empty)
WsLabels == {<<C("SP", 0)>>, <<C("SP", 0), C("O", "x")>>, <<C("O", "x"), C("SP", 0)>>, <<C("NL", 0)>>, <<C("SP", 0), C("SP", 0)>>}
DocsD == { MkDoc("dec", "int", <<C("O", "n")>>, l1, l2) : l1 \in WsLabels, l2 \in WsLabels }
Docs == DocsA \cup DocsB \cup DocsC \cup DocsD
DSeq == SetToSeq(Docs)
MyDocs == { DSeq[i] : i \in { j \in 1..Len(DSeq) : j % NSlices = Slice } }
Layouts == {"short", "long", "elan"}
Absent == [layout |-> "none", text |-> <<>>]
Enc(doc, layout) == CASE layout = "short" -> EncShort(doc) [] layout = "long" -> EncLong(doc, "praat") [] OTHER -> EncLong(doc, "elan")

(* ---------------- "prep" universe ---------------------------------------------- *)
RECURSIVE Geo(_, _)
Geo(from, k) == IF k = 0 THEN {<<>>}
                ELSE {<<>>} \cup UNION { UNION { { <<[s |-> s, e |-> e]>> \o rest : rest \in Geo(e, k - 1) } : e \in (s + 1)..N } : s \in from..(N - 1) }
LabA == <<<<"O", "a">>>>
LabB == <<<<"O", "b">>>>
Labelled2(g) == { [i \in 1..Len(g) |-> [s |-> g[i].s, e |-> g[i].e, l |-> f[i]]] : f \in [1..Len(g) -> {LabA, LabB}] }
PrepTiers == UNION { Labelled2(g) : g \in Geo(0, K) }
PSeq == SetToSeq(PrepTiers)
MyPrep == { PSeq[i] : i \in { j \in 1..Len(PSeq) : j % NSlices = Slice } }

NoCall == [op |-> "none"]
Init == /\ mem \in (IF Mode = "format" THEN MyDocs ELSE MyPrep)
        /\ file = Absent
        /\ out = NoCall

(* ---------------- FileMachine actions --------------------------------------------- *)
Save(layout) == /\ file.layout = "none"
                /\ file' = [layout |-> layout, text |-> Enc(mem, layout)]
                /\ out' = [op |-> "save", layout |-> layout, doc |-> Content(mem), text |-> file'.text]
                /\ mem' = mem
Open == /\ file.layout # "none" /\ out.op = "save"
        /\ out' = [op |-> "open", layout |-> file.layout, doc |-> Content(mem), decoded |-> Decode(file.text, ModelK)]
        /\ UNCHANGED <<mem, file>>

(* ---------------- prep: one step per (span, options) -------------------------------- *)
DoPrep == /\ out.op = "none"
          /\ \E lo \in 0..2, hi \in (N - 2)..N, blanks \in BOOLEAN, T2 \in {0, 3, 4, 6} :
               /\ lo < hi
               /\ LET useT == T2 # 0
                      r == PrepImpl(mem, lo, hi, blanks, useT, T2)
                      outside == mem # <<>> /\ (mem[1].s < lo \/ mem[Len(mem)].e > hi)
                      fails == (IF blanks /\ outside /\ r.st = "ok" THEN {"C04_raises_when_entry_outside_requested_span"} ELSE {})
                               \cup (IF ~outside /\ r.st # "ok" THEN {"C04_saves_when_entries_inside_requested_span"} ELSE {})
                               \cup (IF r.st = "ok" /\ ~(~blanks /\ outside)
                                     THEN (IF ~blanks THEN (IF r.ents = mem THEN {} ELSE {"C04_blanks_off_entries_verbatim"})
                                           ELSE IF useT THEN FailsOf(PrepClauses(mem, lo, hi, r.ents, T2))
                                           ELSE FailsOf(PrepClausesNoT(mem, lo, hi, r.ents)))
                                     ELSE {})
                  IN out' = [op |-> "prep", args |-> [lo |-> lo, hi |-> hi, blanks |-> blanks, useT |-> useT, T2 |-> T2],
                             pre |-> mem, st |-> r.st, ents |-> IF r.st = "ok" THEN r.ents ELSE <<>>, fails |-> fails]
          /\ UNCHANGED <<mem, file>>

Next == IF Mode = "format" THEN (\E l \in Layouts : Save(l)) \/ Open ELSE DoPrep
Spec == Init /\ [][Next]_vars

(* ---------------- what TLC checks --------------------------------------------------- *)
\* the specification's reader recovers exactly what the specification's writer encoded
DecodeIsInverse == out.op = "open" => out.decoded = out.doc
\* praatio's reader decisions (ReaderImpl) against the specification's lexer, for the document in mem:
\* the odd-quote-run terminator is right on every name and label; the keyword searches are right on keyword-free documents
ReaderRulesOK == (Mode = "format") =>
                   /\ \A k \in 1..Len(DocTexts(mem)) : QuoteRuleAgrees(DocTexts(mem)[k])
                   /\ (KeywordFree(mem) <=> (SniffRight(mem) /\ BlocksRight(mem)))
NoFail == IF out.op = "prep" /\ out.fails # {} THEN PrintT(<<"FAILS", out>>) /\ FALSE ELSE TRUE
EmitInv == IF Emit /\ out.op \in {"save", "prep"} THEN PrintT(ToJson(out)) ELSE TRUE
=============================================================================
