INIT TraceInit
NEXT TraceNext
POSTCONDITION AllConsumed
CHECK_DEADLOCK FALSE
