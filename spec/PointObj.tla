------------------------------ MODULE PointObj ------------------------------
(***************************************************************************)
(* Growth beyond the listed properties (X06): PointObject.getPointsInInterval *)
(* (data_classes/data_point.py).  The code scans the point list from       *)
(* startIndex and stops at the first time beyond `end` (it relies on the   *)
(* list being in time order); a caller relies on getting exactly the times *)
(* t with start <= t <= end among the points from startIndex on, in order. *)
(* TLC checks the scan against that for every sorted list up to MaxLen     *)
(* over 0..VMax, every start/end pair and every start index, and emits     *)
(* every case for replay; for an unsorted list the two differ - TLC shows  *)
(* it when Sorted is dropped from Init (kept as the documented premise).   *)
(***************************************************************************)
EXTENDS Integers, Sequences, FiniteSets, TLC, Json
CONSTANTS MaxLen, VMax, Emit
VARIABLES pts, out
vars == <<pts, out>>

RECURSIVE SeqsOver(_)
SeqsOver(n) == IF n = 0 THEN {<<>>} ELSE { Append(s, v) : s \in SeqsOver(n - 1), v \in 0..VMax }
Sorted(s) == \A i \in 1..(Len(s) - 1) : s[i] <= s[i + 1]

\* the scan of the code: python's `for entry in pointList[startIndex:]` with `break` at the first time > end
RECURSIVE Scan(_, _, _, _, _)
Scan(s, i, a, b, acc) == IF i > Len(s) THEN acc
                         ELSE IF s[i] >= a THEN (IF s[i] <= b THEN Scan(s, i + 1, a, b, Append(acc, s[i])) ELSE acc)
                         ELSE Scan(s, i + 1, a, b, acc)
\* what the caller relies on
Wanted(s, k, a, b) == SelectSeq(SubSeq(s, k + 1, Len(s)), LAMBDA t : a <= t /\ t <= b)
PointsInIntervalClauses(e) ==
  [ X06_never_fails |-> e.st = "ok",
    X06_exactly_the_points_inside_from_the_start_index_on |-> e.st = "ok" => e.ret = Wanted(e.pts, e.args.k, e.args.a, e.args.b) ]
PointObjFails(e) == {c \in DOMAIN PointsInIntervalClauses(e) : ~PointsInIntervalClauses(e)[c]}

Init == pts \in { s \in UNION { SeqsOver(n) : n \in 0..MaxLen } : Sorted(s) } /\ out = [op |-> "none"]
Next == /\ out.op = "none" /\ pts' = pts
        /\ \E a \in 0..VMax, b \in 0..VMax, k \in 0..Len(pts) :
             out' = [op |-> "pointsInInterval", pts |-> pts, args |-> [a |-> a, b |-> b, k |-> k], st |-> "ok", ret |-> Scan(pts, k + 1, a, b, <<>>)]
NoFail == IF out.op = "none" \/ PointObjFails(out) = {} THEN TRUE ELSE PrintT(<<"FAILS", PointObjFails(out), out>>) /\ FALSE
EmitInv == IF Emit /\ out.op # "none" THEN PrintT(ToJson(out)) ELSE TRUE
=============================================================================
