------------------------------ MODULE FindAll ------------------------------
(***************************************************************************)
(* utils.findAll(txt, subStr) as a PlusCal algorithm: the loop             *)
(*     index = 0                                                           *)
(*     while True:                                                         *)
(*         try: index = txt.index(subStr, index)                           *)
(*         except ValueError: break                                        *)
(*         indexList.append(index); index += 1                             *)
(* The readers use it to locate every 'item [', 'intervals [', ... in a    *)
(* file.  TLC checks, for every text and pattern over a small alphabet:    *)
(* the loop terminates (Termination, under weak fairness) and the result   *)
(* is exactly the ascending list of all - also overlapping - occurrences   *)
(* (ResultOK).  str.index with an empty pattern matches at every position  *)
(* up to and including len(txt): modelled as the code behaves.             *)
(* Growth beyond the listed properties (X04); positions are 0-based.       *)
(***************************************************************************)
EXTENDS FindAllProp, TLC, Json
CONSTANTS Alphabet, MaxTxt, MaxSub, Emit

RECURSIVE Strings(_)
Strings(n) == IF n = 0 THEN {<<>>} ELSE {<<>>} \cup { Append(s, c) : s \in Strings(n - 1), c \in Alphabet }

(* --fair algorithm findAll
variables txt \in Strings(MaxTxt), sub \in Strings(MaxSub), index = 0, found = 0, indexList = <<>>;
begin
  Loop:
    while TRUE do
      found := IndexFrom(txt, sub, index);
      Check:
        if found = -1 then
          goto Done;
        else
          indexList := Append(indexList, found);
          index := found + 1;
        end if;
    end while;
end algorithm; *)
\* BEGIN TRANSLATION
VARIABLES pc, txt, sub, index, found, indexList

vars == << pc, txt, sub, index, found, indexList >>

Init == (* Global variables *)
        /\ txt \in Strings(MaxTxt)
        /\ sub \in Strings(MaxSub)
        /\ index = 0
        /\ found = 0
        /\ indexList = <<>>
        /\ pc = "Loop"

Loop == /\ pc = "Loop"
        /\ found' = IndexFrom(txt, sub, index)
        /\ pc' = "Check"
        /\ UNCHANGED << txt, sub, index, indexList >>

Check == /\ pc = "Check"
         /\ IF found = -1
               THEN /\ pc' = "Done"
                    /\ UNCHANGED << index, indexList >>
               ELSE /\ indexList' = Append(indexList, found)
                    /\ index' = found + 1
                    /\ pc' = "Loop"
         /\ UNCHANGED << txt, sub, found >>

(* Allow infinite stuttering to prevent deadlock on termination. *)
Terminating == pc = "Done" /\ UNCHANGED vars

Next == Loop \/ Check
           \/ Terminating

Spec == /\ Init /\ [][Next]_vars
        /\ WF_vars(Next)

Termination == <>(pc = "Done")

\* END TRANSLATION

\* what a caller relies on: every occurrence (also overlapping ones), each once, in ascending order
ResultOK == pc = "Done" => /\ {indexList[i] : i \in 1..Len(indexList)} = Occurrences(txt, sub)
                            /\ \A i \in 1..(Len(indexList) - 1) : indexList[i] < indexList[i + 1]
\* the variant behind termination: the search position moves strictly forward and never passes len(txt) + 1
Progress == [][pc = "Check" /\ pc' = "Loop" => (index' > index /\ index' <= Len(txt) + 1)]_vars
EmitInv == IF Emit /\ pc = "Done" THEN PrintT(ToJson([txt |-> txt, sub |-> sub, ret |-> indexList])) ELSE TRUE

=============================================================================
