---------------------------- MODULE Trace_SeriesExt ----------------------------
(* Trace validation for the series growth family (SeriesExtProp: windowed z-score), events recorded from my_math. *)
EXTENDS SeriesExtProp, TLC, TLCExt, Json, IOUtils
Events == ndJsonDeserialize(IOEnv.TRACE_FILE)
VARIABLE l
TraceInit == l = 1
TraceNext == /\ l <= Len(Events)
             /\ LET e == Events[l]
                    f == SeriesExtFails(e)
                IN IF f = {} THEN TRUE ELSE PrintT(<<"VERDICT", e.id, f>>)
             /\ l' = l + 1
TraceSpec == TraceInit /\ [][TraceNext]_l
AllConsumed == TLCGet("stats").diameter - 1 = Len(Events)
=============================================================================
