------------------------------ MODULE Trace_Tg ------------------------------
(* Trace validation for Textgrid-level calls: see Trace_Tier; the clause sets are TgProp's. *)
EXTENDS TgProp, TLC, TLCExt, Json, IOUtils

Events == ndJsonDeserialize(IOEnv.TRACE_FILE)

VARIABLE l
TraceInit == l = 1
TraceNext == /\ l <= Len(Events)
             /\ LET e == Events[l]
                    f == TgFails(e) \cup (IF e.offgrid = 0 THEN {} ELSE {"times_off_grid"})
                IN IF f = {} THEN TRUE ELSE PrintT(<<"VERDICT", e.id, f>>)
             /\ l' = l + 1
TraceSpec == TraceInit /\ [][TraceNext]_l
AllConsumed == TLCGet("stats").diameter - 1 = Len(Events)
=============================================================================
