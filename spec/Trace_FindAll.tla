---------------------------- MODULE Trace_FindAll ----------------------------
(* Trace validation of recorded utils.findAll calls against FindAllProp. *)
EXTENDS FindAllProp, TLC, TLCExt, Json, IOUtils
Events == ndJsonDeserialize(IOEnv.TRACE_FILE)
VARIABLE l
TraceInit == l = 1
TraceNext == /\ l <= Len(Events)
             /\ LET e == Events[l]
                    f == FindAllFails(e)
                IN IF f = {} THEN TRUE ELSE PrintT(<<"VERDICT", e.id, f>>)
             /\ l' = l + 1
TraceSpec == TraceInit /\ [][TraceNext]_l
AllConsumed == TLCGet("stats").diameter - 1 = Len(Events)
=============================================================================
