----------------------------- MODULE Trace_File -----------------------------
(* Trace validation for the file family: "save" events (C02, C04), "open" events (C03), "roundtrip" events (C01). *)
EXTENDS FileProp, TLC, TLCExt, Json, IOUtils

Events == ndJsonDeserialize(IOEnv.TRACE_FILE)

FailsE(e) == CASE e.op = "save" -> SaveClausesC02(e) \cup (IF e.grid THEN SaveClausesC04(e) ELSE {})
               [] e.op = "open" -> FailsOf(OpenClauses(e))
               [] e.op = "agree" -> FailsOf(AgreeClauses(e))
               [] e.op = "roundtrip" -> FailsOf(RoundTripClauses(e))
               [] OTHER -> {"UNKNOWN_OP"}

VARIABLE l
TraceInit == l = 1
TraceNext == /\ l <= Len(Events)
             /\ LET e == Events[l]
                    f == FailsE(e)
                IN IF f = {} THEN TRUE ELSE PrintT(<<"VERDICT", e.id, f>>)
             /\ l' = l + 1
TraceSpec == TraceInit /\ [][TraceNext]_l
AllConsumed == TLCGet("stats").diameter - 1 = Len(Events)
=============================================================================
