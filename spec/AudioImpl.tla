----------------------------- MODULE AudioImpl -----------------------------
(***************************************************************************)
(* Code-shaped transcription of praatio/audio.py on sample ids:            *)
(* Wav._getIndexAtTime (python round: ties to even), the slice-based       *)
(* edits, utils.invertIntervalList with its sentinel trick,                *)
(* _computeKeepDeleteIntervals and readFramesAtTimes.                      *)
(***************************************************************************)
EXTENDS AudioProp

\* python round(t / M): half to even
PyRound(t, M) == LET q == t \div M  r == t % M IN
                 IF 2 * r < M THEN q ELSE IF 2 * r > M THEN q + 1 ELSE IF q % 2 = 0 THEN q ELSE q + 1
\* python slice s[i:j] for 0 <= i, j
PySlice(s, i, j) == LET a == Min0(i, Len(s))  b == Min0(j, Len(s)) IN IF b <= a THEN <<>> ELSE SubSeq(s, a + 1, b)
From(s, j) == PySlice(s, j, Len(s))
Upto(s, i) == PySlice(s, 0, i)

GetImpl(s, t0, t1, M) == PySlice(s, PyRound(t0, M), PyRound(t1, M))
DeleteImpl(s, t0, t1, M) == Upto(s, PyRound(t0, M)) \o From(s, PyRound(t1, M))
InsertImpl(s, t, f, M) == Upto(s, PyRound(t, M)) \o f \o From(s, PyRound(t, M))
ReplaceImpl(s, t0, t1, f, M) == InsertImpl(DeleteImpl(s, t0, t1, M), t0, f, M)

(* ---------------- utils.invertIntervalList(list, minValue, maxValue) ---------------- *)
SortIvs(ivs) == SortSeq(ivs, LAMBDA x, y : x.s < y.s \/ (x.s = y.s /\ x.e < y.e))
InvertImpl(ivs, lo, hi) ==
  IF \E i \in IdxS(ivs) : ivs[i].s >= ivs[i].e THEN [st |-> "ArgumentError"]
  ELSE IF ivs = <<>> THEN [st |-> "ok", ivs |-> <<[s |-> lo, e |-> hi]>>]
  ELSE LET s0 == SortIvs(ivs)
           s1 == IF s0[1].s > lo THEN <<[s |-> -1, e |-> lo]>> \o s0 ELSE s0
           s2 == IF s1[Len(s1)].e < hi THEN Append(s1, [s |-> hi, e |-> hi + 1]) ELSE s1
           inv == [i \in 1..(Len(s2) - 1) |-> [s |-> s2[i].e, e |-> s2[i + 1].s]]
       IN [st |-> "ok", ivs |-> SelectSeq(inv, LAMBDA x : x.s # x.e)]

(* ---------------- readFramesAtTimes ---------------------------------------------------- *)
\* returns [st, ret]; generated samples are id 0
ReadAtTimesImpl(s, keepArg, delArg, gen, M) ==
  LET total == Len(s) * M IN
  IF keepArg # <<>> /\ delArg # <<>> THEN [st |-> "ArgumentError", ret |-> <<>>]
  ELSE LET inv == IF delArg # <<>> THEN InvertImpl(delArg, 0, total)
                  ELSE IF keepArg # <<>> THEN InvertImpl(keepArg, 0, total) ELSE [st |-> "ok", ivs |-> <<>>]
       IN IF inv.st # "ok" THEN [st |-> inv.st, ret |-> <<>>]
          ELSE LET keep == IF keepArg # <<>> THEN keepArg ELSE IF delArg # <<>> THEN inv.ivs ELSE <<[s |-> 0, e |-> total]>>
                   drop == IF keepArg # <<>> THEN inv.ivs ELSE delArg
                   marked == SortSeq([i \in IdxS(keep) |-> [s |-> keep[i].s, e |-> keep[i].e, k |-> TRUE]]
                                     \o [i \in IdxS(drop) |-> [s |-> drop[i].s, e |-> drop[i].e, k |-> FALSE]],
                                     LAMBDA x, y : x.s < y.s \/ (x.s = y.s /\ x.e < y.e))
                   piece(m) == IF m.k THEN PySlice(s, PyRound(m.s, M), PyRound(m.e, M))
                               ELSE IF gen THEN [k \in 1..PyRound(m.e - m.s, M) |-> 0] ELSE <<>>
               IN IF marked # <<>> /\ marked[Len(marked)].e > total THEN [st |-> "ArgumentError", ret |-> <<>>]
                  ELSE [st |-> "ok", ret |-> FlattenSeq([i \in IdxS(marked) |-> piece(marked[i])])]
=============================================================================
