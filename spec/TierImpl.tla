----------------------------- MODULE TierImpl -----------------------------
(***************************************************************************)
(* Code-shaped transcription ("Impl" layer) of praatio's tier operations:  *)
(* one IF/CASE arm per branch of the Python, multi-step where the code is  *)
(* multi-step.  Every operator returns a result record                     *)
(*     [st |-> status, ret |-> returned tier or NoTier,                    *)
(*      post |-> receiver after the call, out |-> did it print]            *)
(* Files transcribed: data_classes/interval_tier.py, point_tier.py,        *)
(* textgrid_tier.py, utilities/utils.py (getIntervalsInInterval).          *)
(***************************************************************************)
EXTENDS Grid

Res(st, ret, post, out) == [st |-> st, ret |-> ret, post |-> post, out |-> out]
Fail(st, t) == Res(st, NoTier, t, FALSE)
Ok(ret, t) == Res("ok", ret, t, FALSE)

(* ---------------- constructors (IntervalTier.__init__ / PointTier.__init__) *)
(* entries are sorted, span is the hull of the given span and the entries;  *)
(* an interval tier is then validated (start < end, no overlap).            *)
ConsI(name, ents, lo, hi) ==
  LET es == SortIv(ents)
      lo2 == MinOf({lo} \cup {es[i].s : i \in Idx(es)})
      hi2 == MaxOf({hi} \cup {es[i].e : i \in Idx(es)})
  IN IF \E i \in Idx(es) : es[i].s >= es[i].e THEN [st |-> "TextgridStateError"]
     ELSE IF \E i \in 1..(Len(es) - 1) : es[i].e > es[i + 1].s THEN [st |-> "TextgridStateError"]
     ELSE [st |-> "ok", tier |-> MkTier("I", name, lo2, hi2, es)]

ConsP(name, pts, lo, hi) ==
  LET ps == SortPt(pts)
      lo2 == MinOf({lo, hi} \cup Times(ps))          \* point tiers: one list of all times incl. minT and maxT
      hi2 == MaxOf({lo, hi} \cup Times(ps))
  IN [st |-> "ok", tier |-> MkTier("P", name, lo2, hi2, ps)]

ConsK(kind, name, ents, lo, hi) == IF kind = "I" THEN ConsI(name, ents, lo, hi) ELSE ConsP(name, ents, lo, hi)

(* wrap a constructor result as the return value of a copy-returning call *)
RetCons(c, t) == IF c.st = "ok" THEN Ok(c.tier, t) ELSE Fail(c.st, t)

(* ---------------- utils.getIntervalsInInterval: five branches ------------- *)
CropEntry(iv, a, b, mode) ==
  IF iv.e <= a \/ iv.s >= b THEN <<>>
  ELSE IF iv.s >= a /\ iv.e <= b THEN <<iv>>
  ELSE IF mode = "lax" /\ (iv.s >= a \/ iv.e <= b) THEN <<iv>>
  ELSE IF iv.s >= a /\ iv.e > b THEN (IF mode = "truncated" THEN <<[iv EXCEPT !.e = b]>> ELSE <<>>)
  ELSE IF iv.s < a /\ iv.e <= b THEN (IF mode = "truncated" THEN <<[iv EXCEPT !.s = a]>> ELSE <<>>)
  ELSE IF iv.s <= a /\ iv.e >= b THEN
        (IF mode = "lax" THEN <<iv>> ELSE IF mode = "truncated" THEN <<[iv EXCEPT !.s = a, !.e = b]>> ELSE <<>>)
  ELSE <<>>
CropList(es, a, b, mode) == Concat([i \in Idx(es) |-> CropEntry(es[i], a, b, mode)])

(* ---------------- crop ------------------------------------------------- *)
CropI(t, a, b, mode, rebase) ==
  IF a >= b THEN Fail("ArgumentError", t)
  ELSE LET u == CropList(t.ents, a, b, mode) IN
       IF rebase
       THEN LET d == IF u # <<>> /\ u[1].s < a THEN u[1].s ELSE a
            IN RetCons(ConsI(t.name, Shift(u, -d), 0, b - a), t)
       ELSE RetCons(ConsI(t.name, u, a, b), t)

CropP(t, a, b, rebase) ==
  IF a >= b THEN Fail("ArgumentError", t)
  ELSE LET u == SelectSeq(t.ents, LAMBDA p : p.t >= a /\ p.t <= b) IN
       IF rebase THEN RetCons(ConsP(t.name, ShiftP(u, -a), 0, b - a), t)
       ELSE RetCons(ConsP(t.name, u, a, b), t)

Crop(t, a, b, mode, rebase) == IF t.kind = "I" THEN CropI(t, a, b, mode, rebase) ELSE CropP(t, a, b, rebase)

(* ---------------- deleteEntry (list.index + pop) ----------------------- *)
DelFirst(es, x) ==
  IF \E i \in Idx(es) : es[i] = x
  THEN LET i == MinOf({j \in Idx(es) : es[j] = x}) IN SubSeq(es, 1, i - 1) \o SubSeq(es, i + 1, Len(es))
  ELSE es
HasEntry(es, x) == \E i \in Idx(es) : es[i] = x

DeleteEntry(t, x) ==
  IF HasEntry(t.ents, x) THEN Ok(NoTier, [t EXCEPT !.ents = DelFirst(t.ents, x)])
  ELSE Fail("ValueError", t)

RECURSIVE RemoveAll(_, _)
RemoveAll(es, ms) == IF ms = <<>> THEN es ELSE RemoveAll(DelFirst(es, Head(ms)), Tail(ms))

(* ---------------- insertEntry ------------------------------------------ *)
JoinLabels(ls, sep) == IF ls = <<>> THEN "" ELSE FoldLeft(LAMBDA acc, x : acc \o sep \o x, Head(ls), Tail(ls))

IvLess3(x, y) == x.s < y.s \/ (x.s = y.s /\ x.e < y.e)

InsertEntryI(t, x, cmode, rmode) ==
  IF x.s >= x.e THEN Fail("ArgumentError", t)                \* raised by the lax crop that looks for collisions
  ELSE
  LET ms == CropList(t.ents, x.s, x.e, "lax")
      grown(es) == [t EXCEPT !.ents = SortIv(es),
                             !.lo = Min2(t.lo, SortIv(es)[1].s),
                             !.hi = Max2(t.hi, SortIv(es)[Len(es)].e)]
      warn == ms # <<>> /\ rmode = "warning"
  IN IF ms = <<>> THEN Res("ok", NoTier, grown(Append(t.ents, x)), FALSE)
     ELSE IF cmode = "replace" THEN Res("ok", NoTier, grown(Append(RemoveAll(t.ents, ms), x)), warn)
     ELSE IF cmode = "merge" THEN
          LET all == SortSeq(Append(ms, x), IvLess3)
              m == Iv(MinOf({all[i].s : i \in Idx(all)}), MaxOf({all[i].e : i \in Idx(all)}),
                      JoinLabels([i \in Idx(all) |-> all[i].l], "-"))
          IN Res("ok", NoTier, grown(Append(RemoveAll(t.ents, ms), m)), warn)
     ELSE Fail("CollisionError", t)

InsertEntryP(t, x, cmode, rmode) ==
  LET hit == {i \in Idx(t.ents) : t.ents[i].t = x.t}
      grown(ps) == [t EXCEPT !.ents = SortPt(ps),
                             !.lo = Min2(t.lo, SortPt(ps)[1].t),
                             !.hi = Max2(t.hi, SortPt(ps)[Len(ps)].t)]
      warn == hit # {} /\ rmode = "warning"
  IN IF hit = {} THEN Res("ok", NoTier, grown(Append(t.ents, x)), FALSE)
     ELSE LET i == MinOf(hit)
              rest == SubSeq(t.ents, 1, i - 1) \o SubSeq(t.ents, i + 1, Len(t.ents))
          IN IF cmode = "replace" THEN Res("ok", NoTier, grown(Append(rest, x)), warn)
             ELSE IF cmode = "merge" THEN Res("ok", NoTier, grown(Append(rest, Pt(x.t, t.ents[i].l \o "-" \o x.l))), warn)
             ELSE Fail("CollisionError", t)

\* both option values are validated first (utils.validateOption): an invalid one raises WrongOption and nothing changes
InsertEntry(t, x, cmode, rmode) ==
  IF cmode \notin {"error", "replace", "merge"} \/ rmode \notin {"silence", "warning", "error"} THEN Fail("WrongOption", t)
  ELSE IF t.kind = "I" THEN InsertEntryI(t, x, cmode, rmode) ELSE InsertEntryP(t, x, cmode, rmode)

(* ---------------- eraseRegion ------------------------------------------ *)
(* match by lax crop, delete matches, re-insert truncated edges, shift,     *)
(* seam re-join (first pair meeting at the seam with equal labels)          *)
RECURSIVE SeamJoin(_, _, _)
SeamJoin(es, a, i) ==
  IF i >= Len(es) THEN es
  ELSE IF es[i].e = a /\ es[i + 1].s = a /\ es[i].l = es[i + 1].l
       THEN SubSeq(es, 1, i - 1) \o <<Iv(es[i].s, es[i + 1].e, es[i].l)>> \o SubSeq(es, i + 2, Len(es))
       ELSE SeamJoin(es, a, i + 1)

EraseI(t, a, b, mode, shrink) ==
  IF a >= b THEN Fail("ArgumentError", t)
  ELSE LET ms == CropList(t.ents, a, b, "lax") IN
    IF ms # <<>> /\ mode = "error" THEN Fail("CollisionError", t)
    ELSE LET kept == RemoveAll(t.ents, ms)
             left == IF ms # <<>> /\ mode = "truncate" /\ ms[1].s < a THEN <<Iv(ms[1].s, a, ms[1].l)>> ELSE <<>>
             right == IF ms # <<>> /\ mode = "truncate" /\ ms[Len(ms)].e > b THEN <<Iv(b, ms[Len(ms)].e, ms[Len(ms)].l)>> ELSE <<>>
             t1 == SortIv(kept \o left \o right)
             d == b - a
             moved == Concat([i \in Idx(t1) |->
                         IF t1[i].e <= a THEN <<t1[i]>>
                         ELSE IF t1[i].s >= b THEN <<[t1[i] EXCEPT !.s = @ - d, !.e = @ - d]>>
                         ELSE <<>>])
         IN IF shrink THEN RetCons(ConsI(t.name, SeamJoin(moved, a, 1), t.lo, t.hi - d), t)
            ELSE Ok([t EXCEPT !.ents = t1], t)

EraseP(t, a, b, shrink) ==
  IF a >= b THEN Fail("ArgumentError", t)
  ELSE LET kept == SelectSeq(t.ents, LAMBDA p : ~(p.t >= a /\ p.t <= b))
           d == b - a
           moved == Concat([i \in Idx(kept) |->
                       IF kept[i].t < a THEN <<kept[i]>>
                       ELSE IF kept[i].t > b THEN <<[kept[i] EXCEPT !.t = @ - d]>> ELSE <<>>])
       IN IF shrink THEN RetCons(ConsP(t.name, moved, t.lo, t.hi - d), t)
          ELSE Ok([t EXCEPT !.ents = kept], t)

Erase(t, a, b, mode, shrink) == IF t.kind = "I" THEN EraseI(t, a, b, mode, shrink) ELSE EraseP(t, a, b, shrink)

(* ---------------- insertSpace ------------------------------------------ *)
InsertSpaceI(t, s, d, mode) ==
  LET straddles(iv) == ~(iv.e <= s) /\ ~(iv.s >= s)
      piece(iv) ==
        IF iv.e <= s THEN <<iv>>
        ELSE IF iv.s >= s THEN <<[iv EXCEPT !.s = @ + d, !.e = @ + d]>>
        ELSE IF mode = "stretch" THEN <<[iv EXCEPT !.e = @ + d]>>
        ELSE IF mode = "split" THEN <<Iv(iv.s, s, iv.l), Iv(s + d, iv.e + d, iv.l)>>
        ELSE <<iv>>                                           \* no_change
  IN IF mode = "error" /\ \E i \in Idx(t.ents) : straddles(t.ents[i]) THEN Fail("ArgumentError", t)
     ELSE RetCons(ConsI(t.name, Concat([i \in Idx(t.ents) |-> piece(t.ents[i])]), t.lo, t.hi + d), t)

InsertSpaceP(t, s, d) ==
  RetCons(ConsP(t.name, [i \in Idx(t.ents) |-> IF t.ents[i].t <= s THEN t.ents[i] ELSE [t.ents[i] EXCEPT !.t = @ + d]],
                t.lo, t.hi + d), t)

InsertSpace(t, s, d, mode) == IF t.kind = "I" THEN InsertSpaceI(t, s, d, mode) ELSE InsertSpaceP(t, s, d)

(* ---------------- editTimestamps ---------------------------------------- *)
EditI(t, o, rmode) ==
  LET leaves(iv) == iv.s + o < t.lo \/ iv.e + o > t.hi
      anyLeaves == \E i \in Idx(t.ents) : leaves(t.ents[i])
      moved == Concat([i \in Idx(t.ents) |->
                 LET iv == t.ents[i] IN
                 IF iv.e + o <= 0 THEN <<>>
                 ELSE <<Iv(IF iv.s + o < 0 THEN 0 ELSE iv.s + o, iv.e + o, iv.l)>>])
  IN IF rmode = "error" /\ anyLeaves THEN Fail("OutOfBounds", t)
     ELSE LET c == ConsI(t.name, moved, t.lo, t.hi)
          IN IF c.st = "ok" THEN Res("ok", c.tier, t, rmode = "warning" /\ anyLeaves) ELSE Fail(c.st, t)

EditP(t, o, rmode) ==
  LET leaves(p) == p.t + o < t.lo \/ p.t + o > t.hi
      anyLeaves == \E i \in Idx(t.ents) : leaves(t.ents[i])
      moved == Concat([i \in Idx(t.ents) |-> IF t.ents[i].t + o < 0 THEN <<>> ELSE <<[t.ents[i] EXCEPT !.t = @ + o]>>])
  IN IF rmode = "error" /\ anyLeaves THEN Fail("OutOfBounds", t)
     ELSE Res("ok", ConsP(t.name, moved, t.lo, t.hi).tier, t, rmode = "warning" /\ anyLeaves)

Edit(t, o, rmode) == IF t.kind = "I" THEN EditI(t, o, rmode) ELSE EditP(t, o, rmode)

(* ---------------- appendTier -------------------------------------------- *)
AppendTier(a, b) ==
  IF a.kind # b.kind THEN Fail("ArgumentError", a)
  ELSE LET sh == Edit(b, a.hi, "silence")
       IN IF sh.st # "ok" THEN Fail(sh.st, a)
          ELSE RetCons(ConsK(a.kind, a.name, a.ents \o sh.ret.ents, a.lo, a.hi + b.hi), a)

(* ---------------- set operations ---------------------------------------- *)
(* union = fold of insertEntry(merge, silence) over the argument's entries *)
RECURSIVE FoldInsert(_, _)
FoldInsert(t, xs) ==
  IF xs = <<>> THEN [st |-> "ok", tier |-> t]
  ELSE LET r == InsertEntry(t, Head(xs), "merge", "silence")
       IN IF r.st # "ok" THEN [st |-> r.st] ELSE FoldInsert(r.post, Tail(xs))
Union(a, b) ==
  IF a.kind # b.kind THEN Fail("OtherError", a)
  ELSE LET f == FoldInsert(a, b.ents) IN IF f.st = "ok" THEN Ok(f.tier, a) ELSE Fail(f.st, a)

(* difference = fold of eraseRegion(truncate, no shrink) *)
RECURSIVE FoldErase(_, _)
FoldErase(t, xs) ==
  IF xs = <<>> THEN [st |-> "ok", tier |-> t]
  ELSE LET r == EraseI(t, Head(xs).s, Head(xs).e, "truncate", FALSE)
       IN IF r.st # "ok" THEN [st |-> r.st] ELSE FoldErase(r.ret, Tail(xs))
Difference(a, b) == LET f == FoldErase(a, b.ents) IN IF f.st = "ok" THEN Ok(f.tier, a) ELSE Fail(f.st, a)

(* intersection: for each interval of b, a cropped (truncated) to it, labels joined *)
Intersection(a, b) ==
  LET parts == Concat([j \in Idx(b.ents) |->
                 LET sub == CropList(a.ents, b.ents[j].s, b.ents[j].e, "truncated")
                 IN [i \in Idx(sub) |-> Iv(sub[i].s, sub[i].e, sub[i].l \o "-" \o b.ents[j].l)]])
  IN RetCons(ConsI(a.name \o "-" \o b.name, parts, a.lo, a.hi), a)

(* mergeLabels: each interval of a that overlaps content of b, with b's labels appended *)
MergeLabels(a, b) ==
  LET parts == Concat([i \in Idx(a.ents) |->
                 LET sub == CropList(b.ents, a.ents[i].s, a.ents[i].e, "truncated")
                 IN IF sub = <<>> THEN <<>>
                    ELSE <<Iv(Min2(a.ents[i].s, sub[1].s), Max2(a.ents[i].e, sub[Len(sub)].e),
                              a.ents[i].l \o "(" \o JoinLabels([k \in Idx(sub) |-> sub[k].l], ",") \o ")")>>])
  IN RetCons(ConsI(a.name \o "-" \o b.name, parts, a.lo, a.hi), a)

(* new(): a copy *)
New(t) == Ok(t, t)

(* ---------------- dejitter ----------------------------------------------- *)
Timestamps(t) == IF t.kind = "I" THEN Bounds(t.ents) ELSE Times(t.ents)
(* python: min(sortedRefs, key=|x - v|) returns the FIRST minimum, i.e. the smaller of two equidistant ones *)
NearestRef(refs, v) == MinOf({r \in refs : \A q \in refs : AbsV(r - v) <= AbsV(q - v)})
Snap(refs, v, D) == IF AbsV(v - NearestRef(refs, v)) <= D THEN NearestRef(refs, v) ELSE v

Dejitter(t, ref, D) ==
  LET refs == Timestamps(ref) IN
  IF t.ents = <<>> THEN Ok(t, t)
  ELSE IF refs = {} THEN Fail("ValueError", t)
  ELSE IF t.kind = "I"
       THEN RetCons(ConsI(t.name, [i \in Idx(t.ents) |-> Iv(Snap(refs, t.ents[i].s, D), Snap(refs, t.ents[i].e, D), t.ents[i].l)], t.lo, t.hi), t)
       ELSE RetCons(ConsP(t.name, [i \in Idx(t.ents) |-> Pt(Snap(refs, t.ents[i].t, D), t.ents[i].l)], t.lo, t.hi), t)

(* ---------------- morph --------------------------------------------------- *)
(* sel(label) says whether the filter selects the interval *)
RECURSIVE MorphRest(_, _, _, _, _, _)
MorphRest(src, tgt, sel(_), i, adj, acc) ==
  IF i > Len(src) THEN acc
  ELSE LET ns == src[i].s + adj
           cur == src[i].e - src[i].s
           nd == IF sel(src[i].l) THEN tgt[i].e - tgt[i].s ELSE cur
       IN MorphRest(src, tgt, sel, i + 1, adj + (nd - cur), Append(acc, Iv(ns, ns + nd, src[i].l)))

Morph(t, target, sel(_)) ==
  IF Len(t.ents) # Len(target.ents) THEN Fail("SafeZipException", t)
  ELSE LET es == MorphRest(t.ents, target.ents, sel, 1, 0, <<>>)
           diff == IF es = <<>> THEN 0 ELSE es[Len(es)].e - t.ents[Len(t.ents)].e
       IN RetCons(ConsI(t.name, es, t.lo, t.hi + diff), t)
=============================================================================
