----------------------------- MODULE AudioProp -----------------------------
(***************************************************************************)
(* Audio family (C16, C17): a recording is a sequence of sample ids (every *)
(* sample distinguishable, so position AND identity are visible after an   *)
(* edit).  Time is an integer count of 1/M of a sample period (M = 4:      *)
(* every time is on a sample boundary, a quarter, a half - the rounding    *)
(* tie - or three quarters of the way).                                    *)
(* Event: [op, args, pre, st, pe, ret, post, aligned, dur, M]              *)
(*   pre/post: samples of the receiver before/after; ret: returned samples *)
(*   (<<>> if none); aligned: every byte string involved was a whole       *)
(*   number of samples; dur: reported duration x frame rate.               *)
(***************************************************************************)
EXTENDS Integers, Sequences, FiniteSets, SequencesExt

FailsOfA(r) == {k \in DOMAIN r : ~r[k]}
IdxS(s) == 1..Len(s)
\* sample indices nearest to time t (both neighbours at an exact half)
Near(t, M) == LET q == t \div M  r == t % M IN
              IF 2 * r < M THEN {q} ELSE IF 2 * r > M THEN {q + 1} ELSE {q, q + 1}
Min0(a, b) == IF a <= b THEN a ELSE b
Cut(s, i, j) == IF j <= i THEN <<>> ELSE SubSeq(s, Min0(i, Len(s)) + 1, Min0(j, Len(s)))
Clamp(i, n) == IF i > n THEN n ELSE i
Before(s, i) == SubSeq(s, 1, Clamp(i, Len(s)))
After(s, i) == SubSeq(s, Clamp(i, Len(s)) + 1, Len(s))
OkA(e) == e.st = "ok"

GetClauses(e) ==
  LET M == e.M  s == e.pre IN
  [ C16_get_returns_samples_between_nearest_indices |-> OkA(e) =>
        \E i \in Near(e.args.t0, M), j \in Near(e.args.t1, M) : e.ret = Cut(s, i, j),
    C16_whole_samples |-> e.aligned,
    C16_get_does_not_edit |-> e.post = e.pre,
    \* getSubwav: the excerpt is a recording of its own (e.alias: it is the receiver itself, or a sample appended to it showed
    \* in the receiver)
    C16_excerpt_shares_nothing_with_the_recording |-> ~("alias" \in DOMAIN e /\ e.alias) ]
DeleteClauses(e) ==
  LET M == e.M  s == e.pre IN
  [ C16_delete_removes_exactly_those_samples |-> OkA(e) =>
        \E i \in Near(e.args.t0, M), j \in Near(e.args.t1, M) : e.post = (IF j <= i THEN s ELSE Before(s, i) \o After(s, j)),
    C16_whole_samples |-> e.aligned,
    C16_duration_is_count_over_rate |-> OkA(e) => e.dur = Len(e.post) ]
InsertClauses(e) ==
  LET M == e.M  s == e.pre IN
  [ C16_insert_at_nearest_sample_boundary |-> OkA(e) =>
        \E i \in Near(e.args.t, M) : e.post = Before(s, i) \o e.args.frames \o After(s, i),
    C16_whole_samples |-> e.aligned,
    C16_duration_is_count_over_rate |-> OkA(e) => e.dur = Len(e.post) ]
ReplaceClauses(e) ==
  LET M == e.M  s == e.pre IN
  [ C16_replace_is_delete_then_insert |-> OkA(e) =>
        \E i \in Near(e.args.t0, M), j \in Near(e.args.t1, M) :
            LET d == IF j <= i THEN s ELSE Before(s, i) \o After(s, j)
            IN e.post = Before(d, i) \o e.args.frames \o After(d, i),
    C16_whole_samples |-> e.aligned,
    C16_duration_is_count_over_rate |-> OkA(e) => e.dur = Len(e.post) ]
ConcatClauses(e) ==
  [ C16_concatenate_appends |-> OkA(e) /\ e.post = e.pre \o e.args.frames,
    C16_duration_is_count_over_rate |-> OkA(e) => e.dur = Len(e.post) ]
\* insert frames at t, then delete [t, t + |frames|]: the original comes back
\* (at an exact half sample the rounding direction is free, and it may differ between t and t + n: not demanded there)
InsDelClauses(e) == [ C16_insert_then_delete_restores |-> OkA(e) /\ (2 * (e.args.t % e.M) # e.M => e.post = e.pre),
                      C16_whole_samples |-> e.aligned ]
BytesClauses(e) == [ C16_samples_to_bytes_and_back_is_identity |-> OkA(e) /\ e.ret = e.pre ]
\* save then open (Wav.open), or query through QueryWav: same samples, same parameters
SaveOpenClauses(e) == [ C16_save_open_same_samples |-> OkA(e) /\ e.ret = e.pre, C16_save_open_same_parameters |-> e.sameparams,
                        C16_duration_is_count_over_rate |-> OkA(e) => e.dur = Len(e.pre) ]

(* ---------------- C17: reading with keep / delete intervals ----------------------- *)
\* an interval list is a sequence of [s, e] (times); on == every boundary is on a sample position
OnGrid(ivs, M) == \A i \in IdxS(ivs) : ivs[i].s % M = 0 /\ ivs[i].e % M = 0
RECURSIVE Complement(_, _, _)
Complement(ivs, from, to) ==            \* ivs sorted, disjoint, inside [from, to]
  IF ivs = <<>> THEN (IF from < to THEN <<[s |-> from, e |-> to]>> ELSE <<>>)
  ELSE (IF from < Head(ivs).s THEN <<[s |-> from, e |-> Head(ivs).s]>> ELSE <<>>) \o Complement(Tail(ivs), Head(ivs).e, to)
RECURSIVE Stretch(_, _, _)
Stretch(s, ivs, M) == IF ivs = <<>> THEN <<>> ELSE Cut(s, Head(ivs).s \div M, Head(ivs).e \div M) \o Stretch(s, Tail(ivs), M)
\* marked list: kept stretches and dropped stretches in time order
RECURSIVE Assemble(_, _, _, _, _)
Assemble(s, keep, drop, M, gen) ==
  \* with a generator: dropped stretches are replaced by generated samples (id 0) of the same length
  IF keep = <<>> /\ drop = <<>> THEN <<>>
  ELSE IF drop = <<>> \/ (keep # <<>> /\ Head(keep).s < Head(drop).s)
       THEN Cut(s, Head(keep).s \div M, Head(keep).e \div M) \o Assemble(s, Tail(keep), drop, M, gen)
       ELSE (IF gen THEN [k \in 1..((Head(drop).e - Head(drop).s) \div M) |-> 0] ELSE <<>>) \o Assemble(s, keep, Tail(drop), M, gen)

ReadAtTimesClauses(e) ==
  LET M == e.M  s == e.pre  total == Len(s) * M
      keepArg == e.args.keep  delArg == e.args.delete
      both == keepArg # <<>> /\ delArg # <<>>
      given == IF keepArg # <<>> THEN keepArg ELSE delArg
      beyond == \E i \in IdxS(given) : given[i].e > total
      on == OnGrid(given, M)
      keep == IF keepArg # <<>> THEN keepArg ELSE Complement(delArg, 0, total)
      drop == IF keepArg # <<>> THEN Complement(keepArg, 0, total) ELSE delArg
      gen == e.args.gen # "none"
      ret0 == [i \in IdxS(e.ret) |-> IF e.ret[i] < 0 THEN 0 ELSE e.ret[i]]       \* generated samples project to 0
  IN [ C17_both_lists_rejected |-> both => ~OkA(e),                 \* "is rejected": the statement names no exception class
       C17_times_beyond_recording_rejected |-> (~both /\ beyond) => ~OkA(e),
       C17_read_succeeds |-> (~both /\ ~beyond) => OkA(e),
       C17_kept_stretches_in_order |-> (OkA(e) /\ on /\ ~both /\ ~beyond) => ret0 = Assemble(s, keep, drop, M, gen),
       C17_same_length_with_replacement |-> (OkA(e) /\ on /\ gen /\ ~both /\ ~beyond) => Len(e.ret) = Len(s),
       C17_kept_samples_at_original_position |-> (OkA(e) /\ on /\ gen /\ ~both /\ ~beyond /\ Len(e.ret) = Len(s)) =>
            \A i \in IdxS(s) : e.ret[i] > 0 => e.ret[i] = s[i],
       \* off the sample grid: every kept stretch may start/end one sample early or late
       C17_off_grid_lengths_within_one_sample |-> (OkA(e) /\ ~on /\ ~gen /\ ~both /\ ~beyond) =>
            LET want == Len(Stretch(s, keep, M)) IN Len(e.ret) >= want - 2 * Len(keep) /\ Len(e.ret) <= want + 2 * Len(keep),
       C17_whole_samples |-> e.aligned ]

\* generated audio: round(rate x duration) samples; e.args.d in 1/M samples, e.n the number of samples produced
GenClauses(e) == [ C17_generated_length_is_round_rate_times_duration |-> OkA(e) /\ e.n \in Near(e.args.d, e.M),
                   C17_whole_samples |-> e.aligned ]

\* extractSubwav / one output file of splitAudioOnTier: file samples = source samples of the interval, same parameters
SubwavClauses(e) ==
  LET M == e.M  s == e.pre  on == e.args.t0 % M = 0 /\ e.args.t1 % M = 0 IN
  [ C17_file_holds_exactly_the_interval_samples |-> (OkA(e) /\ on) => e.ret = Cut(s, e.args.t0 \div M, e.args.t1 \div M),
    C17_file_samples_within_one_sample_off_grid |-> (OkA(e) /\ ~on) =>
        \E i \in {(e.args.t0 \div M) - 1, e.args.t0 \div M, (e.args.t0 \div M) + 1, (e.args.t0 \div M) + 2},
           j \in {(e.args.t1 \div M) - 1, e.args.t1 \div M, (e.args.t1 \div M) + 1, (e.args.t1 \div M) + 2} :
             i >= 0 /\ e.ret = Cut(s, i, j),
    C17_file_has_source_parameters |-> OkA(e) => e.sameparams,
    C17_subwav_succeeds |-> OkA(e) ]

\* the cropped TextGrid written next to an output file: spans exactly [0, interval length], contains the entry's label
SplitTgClauses(e) ==
  [ C17_cropped_textgrid_spans_zero_to_interval_length |-> OkA(e) => (e.tglo = 0 /\ e.tghi = e.args.t1 - e.args.t0),
    C17_cropped_textgrid_contains_entry_label |-> OkA(e) => e.haslabel,
    C17_split_succeeds |-> OkA(e) ]
\* one file per entry; the name styles produce distinct files when labels are distinct
SplitSummaryClauses(e) ==
  [ C17_one_file_per_entry |-> OkA(e) => (e.nfiles = e.nentries /\ e.nreturned = e.nentries),
    C17_split_succeeds |-> OkA(e) ]

AudioFails(e) ==
  CASE e.op \in {"getSamples", "getFrames", "getSubwav", "queryGetSamples"} -> FailsOfA(GetClauses(e))
    [] e.op = "deleteSegment" -> FailsOfA(DeleteClauses(e))
    [] e.op = "insert" -> FailsOfA(InsertClauses(e))
    [] e.op = "replaceSegment" -> FailsOfA(ReplaceClauses(e))
    [] e.op = "concatenate" -> FailsOfA(ConcatClauses(e))
    [] e.op = "insDel" -> FailsOfA(InsDelClauses(e))
    [] e.op = "bytesRT" -> FailsOfA(BytesClauses(e))
    [] e.op \in {"saveOpen", "saveQuery"} -> FailsOfA(SaveOpenClauses(e))
    [] e.op = "readAtTimes" -> FailsOfA(ReadAtTimesClauses(e))
    [] e.op \in {"genSilence", "genSine"} -> FailsOfA(GenClauses(e))
    [] e.op \in {"extractSubwav", "splitFile"} -> FailsOfA(SubwavClauses(e))
    [] e.op = "splitTg" -> FailsOfA(SplitTgClauses(e))
    [] e.op = "splitSummary" -> FailsOfA(SplitSummaryClauses(e))
    [] OTHER -> {"UNKNOWN_OP"}
=============================================================================
