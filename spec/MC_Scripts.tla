------------------------------ MODULE MC_Scripts ------------------------------
(***************************************************************************)
(* Bounded universe for ScriptsImpl / ScriptsProp: every textgrid made of  *)
(* a source interval tier "s" from the tier universe (N grid cells, <= K   *)
(* entries, labels from the word-sequence pool), an optional bystander     *)
(* point tier "o" and an optional existing target tier "d"; every          *)
(* start/end pair on the coarse grid (and None); every subset of rejected  *)
(* words.  Times are multiplied by Fine = 12 so that a label of up to four *)
(* words splits into equal parts exactly.                                  *)
(***************************************************************************)
EXTENDS ScriptsProp, TLC, Json
CONSTANTS N, K, Emit, Slice, NSlices, Ops

Fine == 12
A == [c |-> "a", p |-> FALSE]
B == [c |-> "b", p |-> TRUE]
X == [c |-> "x", p |-> FALSE]
P == [c |-> "", p |-> TRUE]
WordLabels == {<<>>, <<A>>, <<A, B>>, <<B, P, A>>, <<X, A, B, X>>, <<P>>}
U == INSTANCE TierUniverse WITH N <- N, K <- K, LabelsU <- WordLabels
Scale(t) == [t EXCEPT !.lo = @ * Fine, !.hi = @ * Fine,
                      !.ents = [i \in Idx(t.ents) |-> IF t.kind = "I" THEN Iv(t.ents[i].s * Fine, t.ents[i].e * Fine, t.ents[i].l)
                                                      ELSE Pt(t.ents[i].t * Fine, t.ents[i].l)]]
Bystander == MkTier("P", "o", 0, N * Fine, <<Pt(Fine, <<A>>)>>)
PointSource == MkTier("P", "s", 0, N * Fine, <<Pt(Fine, <<A>>)>>)
EmptyPointSource == MkTier("P", "s", 0, N * Fine, <<>>)
Targets == { MkTier("I", "d", 0, N * Fine, <<>>), MkTier("I", "d", 0, N * Fine, <<Iv(0, N * Fine, <<X>>)>>),
             MkTier("I", "d", 0, N * Fine, <<Iv(0, Fine, <<A>>), Iv(2 * Fine, N * Fine, <<B>>)>>) }
Sources == { Scale(t) : t \in U!IvTiers("s") }
Tgs == { MkTg(0, N * Fine, <<s>>) : s \in Sources }
        \cup { MkTg(0, N * Fine, <<Bystander, s>>) : s \in Sources }
        \cup { MkTg(0, N * Fine, <<d, s, Bystander>>) : s \in Sources, d \in Targets }
        \cup { MkTg(0, N * Fine, <<Bystander>>), MkTg(0, N * Fine, <<PointSource>>), MkTg(0, N * Fine, <<EmptyPointSource, Bystander>>) }
TSeq == SetToSeq(Tgs)
Mine == { TSeq[i] : i \in { j \in 1..Len(TSeq) : j % NSlices = Slice } }

VARIABLES tg, out
vars == <<tg, out>>
Init == tg \in Mine /\ out = [op |-> "none"]

Ev(op, args, r) == [op |-> op, args |-> args, pre |-> tg, st |-> r.st, ret |-> r.ret, post |-> r.post,
                    same |-> (op = "split" /\ r.st = "ok"), exactfp |-> TRUE]
Cuts == {None} \cup {k * Fine : k \in 0..N}
IsISource == HasName(tg, "s") => TierNamed(tg, "s").kind = "I"      \* splitTierEntries is only modelled for interval sources
DoSplit == /\ "split" \in Ops /\ IsISource
           /\ \E a \in Cuts, b \in Cuts, dst \in {"d", "n"} :
                out' = Ev("split", [src |-> "s", dst |-> dst, a |-> a, b |-> b], SplitTg(tg, "s", dst, a, b))
DoSpell == /\ "spell" \in Ops
           /\ \E bad \in SUBSET {"a", "b", "x"}, dst \in {"d", "n", "o"} :
                out' = Ev("spell", [src |-> "s", dst |-> dst, bad |-> bad], SpellTg(tg, "s", dst, bad))
Next == out.op = "none" /\ tg' = tg /\ (DoSplit \/ DoSpell)
Spec == Init /\ [][Next]_vars

NoFail == IF out.op = "none" \/ ScriptsFails(out) = {} THEN TRUE ELSE PrintT(<<"FAILS", ScriptsFails(out), out>>) /\ FALSE
EmitInv == IF Emit /\ out.op # "none" THEN PrintT(ToJson(out)) ELSE TRUE
=============================================================================
