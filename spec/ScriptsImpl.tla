------------------------------ MODULE ScriptsImpl ------------------------------
(***************************************************************************)
(* Code-shaped transcription of two helpers of praatio/praatio_scripts.py  *)
(* that are not named by any listed property (growth of the specification  *)
(* beyond the list, DESIGN section 17):                                    *)
(*   splitTierEntries(tg, source, target, startT, endT)                    *)
(*   spellCheckEntries(tg, target, newTier, checkFunction)                 *)
(* A label is a sequence of words; a word is [c |-> core, p |-> BOOLEAN]   *)
(* (p: the word carries punctuation that the spell checker strips; a core  *)
(* of "" with p = TRUE is a word made of punctuation only).  Times are     *)
(* integers on a grid fine enough that (end - start) / #words is exact.    *)
(* Results use TgImpl's record [st, ret, rett, post, out]: post is the     *)
(* textgrid object handed in after the call, ret the returned textgrid.    *)
(***************************************************************************)
EXTENDS TgImpl

None == -1

(* ---- splitTierEntries ------------------------------------------------- *)
\* label.split() of one entry into len(words) equal parts
SplitEntry(iv) ==
  LET n == Len(iv.l)  L == (iv.e - iv.s) \div n        \* exact on the fine grid (see MC_Scripts!Fine)
  IN [i \in 1..n |-> Iv(iv.s + L * (i - 1), iv.s + L * i, <<iv.l[i]>>)]
HasBlank(es) == \E i \in Idx(es) : es[i].l = <<>>
RECURSIVE InsertAllError(_, _)
InsertAllError(t, xs) ==
  IF xs = <<>> THEN [st |-> "ok", tier |-> t]
  ELSE LET r == InsertEntryI(t, Head(xs), "error", "silence")
       IN IF r.st # "ok" THEN [st |-> r.st] ELSE InsertAllError(r.post, Tail(xs))

SplitTg(tg, src, dst, a0, b0) ==
  IF ~HasName(tg, src) THEN TFail("KeyError", tg)
  ELSE
    LET ranged == a0 # None \/ b0 # None
        a == IF a0 = None THEN tg.lo ELSE a0
        b == IF b0 = None THEN tg.hi ELSE b0
        source0 == TierNamed(tg, src)
        cr == IF ranged THEN Crop(source0, a, b, "truncated", FALSE) ELSE Ok(source0, source0)
    IN IF cr.st # "ok" THEN TFail(cr.st, tg)
       ELSE
         LET er == IF ranged /\ HasName(tg, dst) THEN Erase(TierNamed(tg, dst), a, b, "truncate", FALSE)
                   ELSE Ok(NoTier, NoTier)
         IN IF er.st # "ok" THEN TFail(er.st, tg)
            ELSE IF HasBlank(cr.ret.ents) THEN TFail("ZeroDivisionError", tg)      \* (end - start) / float(0)
            ELSE
              LET pieces == Concat([i \in Idx(cr.ret.ents) |-> SplitEntry(cr.ret.ents[i])])
                  built == IF er.ret = NoTier THEN ConsI(dst, pieces, tg.lo, tg.hi)
                           ELSE InsertAllError(er.ret, pieces)
              IN IF built.st # "ok" THEN TFail(built.st, tg)
                 ELSE LET rm == IF HasName(tg, dst) THEN Without(tg, dst) ELSE tg
                          ad == AddTier(rm, built.tier, 99, "warning")
                      \* the textgrid handed in is edited in place and returned
                      IN TRes(ad.st, ad.post, NoTier, ad.post, ad.out)

(* ---- spellCheckEntries ------------------------------------------------- *)
\* punctuation is deleted from the label, then the label is split: punctuation-only words vanish
Cores(l) == LET ws == SelectSeq(l, LAMBDA w : w.c # "") IN [i \in Idx(ws) |-> ws[i].c]
SpellTg(tg, src, dst, bad) ==
  IF ~HasName(tg, src) THEN TFail("KeyError", tg)
  ELSE LET t == TierNamed(tg, src)
           wrong(iv) == SelectSeq(Cores(iv.l), LAMBDA c : c \in bad)
           hits == IF t.kind = "I" THEN SelectSeq(t.ents, LAMBDA iv : wrong(iv) # <<>>) ELSE <<>>
           ents == [i \in Idx(hits) |-> Iv(hits[i].s, hits[i].e, [k \in Idx(wrong(hits[i])) |-> [c |-> wrong(hits[i])[k], p |-> FALSE]])]
           c == ConsI(dst, ents, tg.lo, tg.hi)
       IN IF t.kind # "I" /\ t.ents # <<>> THEN TFail("ValueError", tg)   \* a point entry does not unpack into three values
          ELSE IF c.st # "ok" THEN TFail(c.st, tg)
          ELSE LET ad == AddTier(tg, c.tier, 99, "warning")
               IN IF ad.st # "ok" THEN TFail(ad.st, tg)
                  ELSE TRes("ok", ad.post, NoTier, tg, ad.out)     \* works on tg.new(): the argument is untouched
=============================================================================
