------------------------------ MODULE MC_Series ------------------------------
(***************************************************************************)
(* The index bookkeeping of my_math._stepFilter (window offset,            *)
(* lastKnownLargeIndex, edge clamping) transcribed as StepFilterImpl and   *)
(* checked against the median definition for every integer series up to    *)
(* MaxLen over 0..VMax, every window 0..8, with and without edge padding.  *)
(***************************************************************************)
EXTENDS SeriesProp, TLC, Json
CONSTANTS MaxLen, VMax, Emit, Slice, NSlices
VARIABLES xs, out
vars == <<xs, out>>

RECURSIVE SeqsOver(_)
SeqsOver(n) == IF n = 0 THEN {<<>>} ELSE { Append(s, v) : s \in SeqsOver(n - 1), v \in 0..VMax }

\* python: the window of element x (0-based) as _stepFilter builds it
RECURSIVE PostCtx(_, _, _, _, _, _)
PostCtx(d, x, y, o, lastKnown, acc) ==
  IF y > o THEN acc
  ELSE IF x + y >= Len(d) THEN PostCtx(d, x, y + 1, o, lastKnown, Append(acc, d[(IF lastKnown = 0 THEN x ELSE lastKnown) + 1]))
       ELSE PostCtx(d, x, y + 1, o, x + y, Append(acc, d[x + y + 1]))
PreCtx(d, x, o) == [k \in 1..o |-> LET y == o - k + 1 IN d[(IF x - y < 0 THEN 0 ELSE x - y) + 1]]
SortInts(s) == SortSeq(s, LAMBDA a, b : a < b)
MedianImpl(w) == SortInts(w)[(Len(w) + 1) \div 2]
StepFilterImpl(d, window, pad) ==
  LET o == window \div 2 IN
  [i \in 1..Len(d) |-> LET x == i - 1 IN
     IF pad \/ (0 <= x - o /\ x + o < Len(d))
     THEN MedianImpl(PreCtx(d, x, o) \o <<d[i]>> \o PostCtx(d, x, 1, o, 0, <<>>))
     ELSE d[i]]

Init == xs \in { s \in UNION { SeqsOver(n) : n \in 0..MaxLen } : (Len(s) + SumSeq(s)) % NSlices = Slice } /\ out = [op |-> "none"]
Next == /\ out.op = "none"
        /\ \E w \in 0..8, pad \in BOOLEAN :
             out' = [op |-> "median", xs |-> xs, args |-> [window |-> w, pad |-> pad], st |-> "ok", ret |-> StepFilterImpl(xs, w, pad)]
        /\ xs' = xs
NoFail == IF out.op = "none" \/ SeriesFails(out) = {} THEN TRUE ELSE PrintT(<<"FAILS", SeriesFails(out), out>>) /\ FALSE
EmitInv == IF Emit /\ out.op # "none" THEN PrintT(ToJson(out)) ELSE TRUE
=============================================================================
