------------------------------ MODULE MC_Series ------------------------------
(***************************************************************************)
(* The index bookkeeping of my_math._stepFilter (window offset,            *)
(* lastKnownLargeIndex, edge clamping) transcribed as StepFilterImpl and   *)
(* checked against the median definition for every integer series up to    *)
(* MaxLen over 0..VMax, every window 0..8, with and without edge padding.  *)
(***************************************************************************)
EXTENDS SeriesProp, StepFilterImpl, TLC, Json
CONSTANTS MaxLen, VMax, Emit, Slice, NSlices
VARIABLES xs, out
vars == <<xs, out>>

RECURSIVE SeqsOver(_)
SeqsOver(n) == IF n = 0 THEN {<<>>} ELSE { Append(s, v) : s \in SeqsOver(n - 1), v \in 0..VMax }

SortInts(s) == SortSeq(s, LAMBDA a, b : a < b)
MedianImpl(w) == SortInts(w)[(Len(w) + 1) \div 2]
StepFilterImpl(d, window, pad) == StepFilter(MedianImpl, LAMBDA v : v, d, window, pad)

Init == xs \in { s \in UNION { SeqsOver(n) : n \in 0..MaxLen } : (Len(s) + SumSeq(s)) % NSlices = Slice } /\ out = [op |-> "none"]
Next == /\ out.op = "none"
        /\ \E w \in 0..8, pad \in BOOLEAN :
             out' = [op |-> "median", xs |-> xs, args |-> [window |-> w, pad |-> pad], st |-> "ok", ret |-> StepFilterImpl(xs, w, pad)]
        /\ xs' = xs
NoFail == IF out.op = "none" \/ SeriesFails(out) = {} THEN TRUE ELSE PrintT(<<"FAILS", SeriesFails(out), out>>) /\ FALSE
EmitInv == IF Emit /\ out.op # "none" THEN PrintT(ToJson(out)) ELSE TRUE
=============================================================================
