------------------------------ MODULE MC_Audio ------------------------------
(***************************************************************************)
(* The audio state machine: wav is the recording (sequence of distinct     *)
(* sample ids); every edit of audio.Wav is one action computed by          *)
(* AudioImpl, judged by AudioProp (NoFail), for every time on the          *)
(* quarter-sample grid; histories of edits to depth Depth.  Mode "read":   *)
(* every keep/delete interval list (<= MaxIv disjoint intervals on the     *)
(* quarter-sample grid) x replacement for readFramesAtTimes.               *)
(***************************************************************************)
EXTENDS AudioImpl, TLC, Json

CONSTANTS Mode, MaxLen, Depth, MaxIv, Emit, Slice, NSlices
M == 4

VARIABLES wav, out
vars == <<wav, out>>
NoCall == [op |-> "none"]
Fresh == {<<>>, <<101>>, <<101, 102, 103>>}
Times == 0..(M * Len(wav))

Ev(op, args, r) == [op |-> op, args |-> args, pre |-> wav, st |-> r.st, pe |-> r.st = "ArgumentError", ret |-> r.ret, post |-> r.post,
                    aligned |-> TRUE, dur |-> Len(r.post), M |-> M, sameparams |-> TRUE, n |-> Len(r.ret)]
R(ret, post) == [st |-> "ok", ret |-> ret, post |-> post]
Call(op, args, r) == out' = Ev(op, args, r) /\ wav' = r.post

Init == wav \in { [i \in 1..n |-> i] : n \in { k \in 0..MaxLen : k % NSlices = Slice } } /\ out = NoCall

DoGet == \E t0 \in Times, t1 \in Times : t0 <= t1 /\ Call("getSamples", [t0 |-> t0, t1 |-> t1], R(GetImpl(wav, t0, t1, M), wav))
DoDelete == \E t0 \in Times, t1 \in Times : t0 <= t1 /\ Call("deleteSegment", [t0 |-> t0, t1 |-> t1], R(<<>>, DeleteImpl(wav, t0, t1, M)))
DoInsert == \E t \in Times, f \in Fresh : Call("insert", [t |-> t, frames |-> f], R(<<>>, InsertImpl(wav, t, f, M)))
DoReplace == \E t0 \in Times, t1 \in Times, f \in Fresh : t0 <= t1 /\ Call("replaceSegment", [t0 |-> t0, t1 |-> t1, frames |-> f], R(<<>>, ReplaceImpl(wav, t0, t1, f, M)))
DoConcat == \E f \in Fresh : Call("concatenate", [frames |-> f], R(<<>>, wav \o f))
\* insert at t, delete [t, t + |f|]: back to the original
DoInsDel == \E t \in Times, f \in Fresh :
              Call("insDel", [t |-> t, frames |-> f], R(<<>>, DeleteImpl(InsertImpl(wav, t, f, M), t, t + M * Len(f), M)))

RECURSIVE IvLists(_, _)
IvLists(from, k) == IF k = 0 THEN {<<>>}
                    ELSE {<<>>} \cup UNION { UNION { { <<[s |-> s, e |-> e]>> \o rest : rest \in IvLists(e, k - 1) }
                                                    : e \in (s + 1)..(M * Len(wav) + 2) } : s \in from..(M * Len(wav)) }
DoRead == \E keep \in IvLists(0, MaxIv), del \in {<<>>, <<[s |-> 0, e |-> M]>>}, gen \in BOOLEAN, swap \in BOOLEAN :
            LET k == IF swap THEN del ELSE keep
                d == IF swap THEN keep ELSE del
                r == ReadAtTimesImpl(wav, k, d, gen, M)
            IN Call("readAtTimes", [keep |-> k, delete |-> d, gen |-> IF gen THEN "silence" ELSE "none"], [st |-> r.st, ret |-> r.ret, post |-> wav])

Continue == Depth > 1 /\ out.op # "none" /\ Len(wav) <= MaxLen + 3 /\ wav' = wav /\ out' = NoCall
Next == \/ out.op = "none" /\ (IF Mode = "edit" THEN DoGet \/ DoDelete \/ DoInsert \/ DoReplace \/ DoConcat \/ DoInsDel ELSE DoRead)
        \/ Continue
Spec == Init /\ [][Next]_vars

FailSet == IF out.op = "none" THEN {} ELSE AudioFails(out)
NoFail == IF FailSet = {} THEN TRUE ELSE PrintT(<<"FAILS", FailSet, out>>) /\ FALSE
\* sample ids stay distinct: no edit duplicates or invents a sample
Distinct == \A i, j \in 1..Len(wav) : i # j => wav[i] # wav[j]
EmitInv == IF Emit /\ out.op # "none" THEN PrintT(ToJson(out)) ELSE TRUE
Bound == TLCGet("level") <= 2 * Depth
=============================================================================
