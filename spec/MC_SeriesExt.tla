---------------------------- MODULE MC_SeriesExt ----------------------------
(***************************************************************************)
(* znormWindowFilter as the code does it - zero removal, _stepFilter with  *)
(* the centre-value z-score, re-insertion of zeros, and the two ways it    *)
(* fails (a one-element window: StatisticsError; a window without spread:  *)
(* ZeroDivisionError) - checked against SeriesExtProp for every integer    *)
(* series up to MaxLen over 0..VMax, windows 0..5, padding, zero filter.   *)
(***************************************************************************)
EXTENDS SeriesExtProp, StepFilterImpl, TLC, Json
CONSTANTS MaxLen, VMax, Emit, Slice, NSlices
VARIABLES xs, out
vars == <<xs, out>>

RECURSIVE SeqsOver(_)
SeqsOver(n) == IF n = 0 THEN {<<>>} ELSE { Append(s, v) : s \in SeqsOver(n - 1), v \in 0..VMax }

\* round(100 * sqrt(num / den))
RoundRoot(num, den) == CHOOSE r \in 0..400 : (r = 0 \/ (2 * r - 1) * (2 * r - 1) * den <= 40000 * num) /\ 40000 * num < (2 * r + 1) * (2 * r + 1) * den
ZCentre(w) ==
  LET n == Len(w)  c == w[(n \div 2) + 1]  S == SumSeq(w)  Q == SumSq(w)
      num == (n * c - S) * (n * c - S) * (n - 1)
      den == n * (n * Q - S * S)
  IN IF n * c - S >= 0 THEN RoundRoot(num, den) ELSE -RoundRoot(num, den)
\* python's list.insert for every removed index, ascending
RECURSIVE Reinsert(_, _)
Reinsert(out0, zeroIdx) == IF zeroIdx = <<>> THEN out0
                           ELSE Reinsert(SubSeq(out0, 1, Head(zeroIdx) - 1) \o <<0>> \o SubSeq(out0, Head(zeroIdx), Len(out0)), Tail(zeroIdx))
ZWindowImpl(s, window, pad, fz) ==
  LET d == IF fz THEN SelectSeq(s, LAMBDA v : v > 0) ELSE s
      zeroIdx == IF fz THEN SelectSeq([i \in IdxQ(s) |-> i], LAMBDA i : ~(s[i] > 0)) ELSE <<>>
      o == window \div 2
      applied == {x \in 0..(Len(d) - 1) : Applies(d, x, o, pad)}
      flat(w) == Len(w) * SumSq(w) - SumSeq(w) * SumSeq(w) = 0
  IN IF applied # {} /\ o = 0 THEN [st |-> "StatisticsError", ret |-> <<>>]
     ELSE IF \E x \in applied : flat(WindowOf(d, x, o)) THEN [st |-> "ZeroDivisionError", ret |-> <<>>]
     ELSE [st |-> "ok", ret |-> Reinsert(StepFilter(ZCentre, LAMBDA v : 100 * v, d, window, pad), zeroIdx)]

Init == xs \in { s \in UNION { SeqsOver(n) : n \in 0..MaxLen } : (Len(s) + SumSeq(s)) % NSlices = Slice } /\ out = [op |-> "none"]
Next == /\ out.op = "none"
        /\ \E w \in 0..5, pad \in BOOLEAN, fz \in BOOLEAN :
             LET r == ZWindowImpl(xs, w, pad, fz) IN
             out' = [op |-> "zwindow", xs |-> xs, args |-> [window |-> w, pad |-> pad, filterZero |-> fz], st |-> r.st, ret |-> r.ret]
        /\ xs' = xs
NoFail == IF out.op = "none" \/ SeriesExtFails(out) = {} THEN TRUE ELSE PrintT(<<"FAILS", SeriesExtFails(out), out>>) /\ FALSE
EmitInv == IF Emit /\ out.op # "none" THEN PrintT(ToJson(out)) ELSE TRUE
=============================================================================
