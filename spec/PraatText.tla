----------------------------- MODULE PraatText -----------------------------
(***************************************************************************)
(* The ooTextFile format of Praat, formalised from the manual page         *)
(* "TextGrid file formats": the only data in a text file are               *)
(*   - free-standing numbers,                                              *)
(*   - free-standing texts in double quotes, a double quote inside a text  *)
(*     written twice,                                                      *)
(*   - free-standing flags <...>;                                          *)
(* everything else (xmin =, item [1]:, intervals: size = ...) and          *)
(* everything after an exclamation mark up to the end of the line is       *)
(* comment.  "Free-standing" = delimited by white space or the file edges. *)
(*                                                                         *)
(* A character is a tuple <<class, payload, num, ival>>:                   *)
(*   class  \in {"Q" quote, "NL", "SP" (blank, tab, CR), "BANG", "LT",     *)
(*              "GT", "D" digit, "DOT", "PL", "MI", "E" (e or E), "PC" %,  *)
(*              "O" anything else}                                         *)
(*   payload: what distinguishes characters of one class (an index into a  *)
(*            per-file character table, or a symbol in the bounded model)  *)
(*   num, ival: on the first character of a white-space delimited word:    *)
(*            the abstract number the word denotes if it is a number       *)
(*            (-1 otherwise) and its value if it is a small non-negative   *)
(*            integer literal (-1 otherwise).  Whether the word IS a       *)
(*            number token is decided here (IsNumber), not by the          *)
(*            annotation.                                                  *)
(***************************************************************************)
EXTENDS Integers, Sequences, FiniteSets, SequencesExt, Functions, Folds

C(cls, p) == <<cls, p, -1, -1>>
CN(cls, p, num, ival) == <<cls, p, num, ival>>
Cls(ch) == ch[1]
Pay(ch) == ch[2]
IsWS(ch) == Cls(ch) \in {"NL", "SP"}
\* text content of a string token: classes and payloads only (annotations are not content)
Plain(s) == [i \in 1..Len(s) |-> <<s[i][1], s[i][2]>>]

(* ---------------- number syntax:  [+-]? (D+ .? D* | . D+) ([eE] [+-]? D+)? %?  *)
RECURSIVE SkipD(_, _)
SkipD(w, i) == IF i <= Len(w) /\ Cls(w[i]) = "D" THEN SkipD(w, i + 1) ELSE i
IsNumber(w) ==
  LET i0 == IF w # <<>> /\ Cls(w[1]) \in {"PL", "MI"} THEN 2 ELSE 1
      i1 == SkipD(w, i0)
      hasInt == i1 > i0
      i2 == IF i1 <= Len(w) /\ Cls(w[i1]) = "DOT" THEN i1 + 1 ELSE i1
      i3 == SkipD(w, i2)
      hasFrac == i3 > i2
      mantOK == hasInt \/ (i2 > i1 /\ hasFrac)
      i4 == IF i3 <= Len(w) /\ Cls(w[i3]) = "E"
            THEN (IF i3 + 1 <= Len(w) /\ Cls(w[i3 + 1]) \in {"PL", "MI"} THEN i3 + 2 ELSE i3 + 1) ELSE i3
      i5 == IF i4 > i3 THEN SkipD(w, i4) ELSE i4
      expOK == i4 = i3 \/ i5 > i4
      i6 == IF i5 <= Len(w) /\ Cls(w[i5]) = "PC" THEN i5 + 1 ELSE i5
  IN mantOK /\ expOK /\ i6 = Len(w) + 1

(* ---------------- the lexer, one character at a time ------------------------- *)
(* tokens: <<"n", num, ival>>, <<"s", text>>, <<"f", word>>                       *)
L0 == [mode |-> "ws", word |-> <<>>, str |-> <<>>, toks |-> <<>>]
CloseWord(st) ==
  LET w == st.word IN
  IF w = <<>> THEN st.toks
  ELSE IF IsNumber(w) THEN Append(st.toks, <<"n", w[1][3], w[1][4]>>)
  ELSE IF Cls(w[1]) = "LT" /\ Cls(w[Len(w)]) = "GT" THEN Append(st.toks, <<"f", Plain(w)>>)
  ELSE st.toks
LexStep(st, ch) ==
  CASE st.mode = "ws" ->
         IF IsWS(ch) THEN st
         ELSE IF Cls(ch) = "Q" THEN [st EXCEPT !.mode = "str", !.str = <<>>]
         ELSE IF Cls(ch) = "BANG" THEN [st EXCEPT !.mode = "bang"]
         ELSE [st EXCEPT !.mode = "word", !.word = <<ch>>]
    [] st.mode = "word" ->
         IF IsWS(ch) THEN [st EXCEPT !.mode = "ws", !.toks = CloseWord(st), !.word = <<>>]
         ELSE [st EXCEPT !.word = Append(@, ch)]
    [] st.mode = "bang" -> IF Cls(ch) = "NL" THEN [st EXCEPT !.mode = "ws"] ELSE st
    [] st.mode = "str" ->
         IF Cls(ch) = "Q" THEN [st EXCEPT !.mode = "q"] ELSE [st EXCEPT !.str = Append(@, ch)]
    [] st.mode = "q" ->       \* a quote inside a text: the first half of a doubled quote, or the end of the text
         IF Cls(ch) = "Q" THEN [st EXCEPT !.mode = "str", !.str = Append(@, ch)]
         ELSE IF IsWS(ch) THEN [st EXCEPT !.mode = "ws", !.toks = Append(@, <<"s", Plain(st.str)>>)]
         ELSE [st EXCEPT !.mode = "junk"]                     \* closing quote not free-standing: not data
    [] st.mode = "junk" -> IF IsWS(ch) THEN [st EXCEPT !.mode = "ws", !.toks = Append(@, <<"bad">>)] ELSE st
    [] OTHER -> st
LexEnd(st) == CASE st.mode = "word" -> CloseWord(st)
                [] st.mode = "q" -> Append(st.toks, <<"s", Plain(st.str)>>)
                [] st.mode \in {"str", "junk"} -> Append(st.toks, <<"bad">>)     \* unterminated text
                [] OTHER -> st.toks
Lex(text) == LexEnd(FoldLeft(LexStep, L0, text))

(* ---------------- token-level parser ------------------------------------------ *)
(* K = [oo, tg, it, tt, ex]: the character codes of the texts ooTextFile, TextGrid, *)
(* IntervalTier, TextTier and of the flag <exists> in the coding of this file.      *)
(* Returns [ok |-> FALSE, why |-> ..] or [ok |-> TRUE, lo, hi, tiers] with numbers  *)
(* given as their abstract ids; every declared size is checked against the items.   *)
Bad(why) == [ok |-> FALSE, why |-> why]
IsN(toks, p) == p <= Len(toks) /\ toks[p][1] = "n"
IsS(toks, p) == p <= Len(toks) /\ toks[p][1] = "s"

RECURSIVE ParseEnts(_, _, _, _, _)
ParseEnts(toks, p, isI, n, acc) ==
  IF n = 0 THEN [ok |-> TRUE, ents |-> acc, p |-> p]
  ELSE IF isI
       THEN IF IsN(toks, p) /\ IsN(toks, p + 1) /\ IsS(toks, p + 2)
            THEN ParseEnts(toks, p + 3, isI, n - 1, Append(acc, [s |-> toks[p][2], e |-> toks[p + 1][2], l |-> toks[p + 2][2]]))
            ELSE Bad("interval-items")
       ELSE IF IsN(toks, p) /\ IsS(toks, p + 1)
            THEN ParseEnts(toks, p + 2, isI, n - 1, Append(acc, [t |-> toks[p][2], l |-> toks[p + 1][2]]))
            ELSE Bad("point-items")

RECURSIVE ParseTiers(_, _, _, _, _)
ParseTiers(toks, p, n, acc, K) ==
  IF n = 0 THEN [ok |-> TRUE, tiers |-> acc, p |-> p]
  ELSE IF ~(IsS(toks, p) /\ IsS(toks, p + 1) /\ IsN(toks, p + 2) /\ IsN(toks, p + 3) /\ IsN(toks, p + 4)) THEN Bad("tier-header")
  ELSE IF toks[p][2] \notin {K.it, K.tt} THEN Bad("tier-class")
  ELSE IF toks[p + 4][3] < 0 THEN Bad("size-not-an-integer")
  ELSE LET isI == toks[p][2] = K.it
           r == ParseEnts(toks, p + 5, isI, toks[p + 4][3], <<>>)
       IN IF ~r.ok THEN r
          ELSE ParseTiers(toks, r.p, n - 1,
                          Append(acc, [kind |-> IF isI THEN "I" ELSE "P", name |-> toks[p + 1][2],
                                       lo |-> toks[p + 2][2], hi |-> toks[p + 3][2], ents |-> r.ents]), K)

ParseTextGrid(toks, K) ==
  IF \E i \in 1..Len(toks) : toks[i][1] = "bad" THEN Bad("text-not-free-standing-or-unterminated")
  ELSE IF ~(IsS(toks, 1) /\ IsS(toks, 2)) THEN Bad("file-header")
  ELSE IF toks[1][2] # K.oo \/ toks[2][2] # K.tg THEN Bad("file-type")
  ELSE IF ~(IsN(toks, 3) /\ IsN(toks, 4)) THEN Bad("span")
  ELSE IF ~(Len(toks) >= 6 /\ toks[5][1] = "f" /\ toks[5][2] = K.ex) THEN Bad("exists-flag")
  ELSE IF ~(IsN(toks, 6) /\ toks[6][3] >= 0) THEN Bad("tier-count")
  ELSE LET r == ParseTiers(toks, 7, toks[6][3], <<>>, K)
       IN IF ~r.ok THEN r
          ELSE IF r.p # Len(toks) + 1 THEN Bad("size-field: items left over after the declared sizes")
          ELSE [ok |-> TRUE, lo |-> toks[3][2], hi |-> toks[4][2], tiers |-> r.tiers]

Decode(text, K) == ParseTextGrid(Lex(text), K)

(* ---------------- writers from the specification -------------------------------- *)
(* An abstract document: [lo, hi, tiers], a tier [kind, name, lo, hi, ents], numbers *)
(* [id, sp] (abstract number + spelling class), names/labels sequences of characters. *)
SPc == <<C("SP", 0)>>
NLc == <<C("NL", 0)>>
QQ == <<C("Q", 0)>>
Word(s) == <<C("O", s)>>                      \* a comment word: one opaque character is enough for the lexer
Txt(s) == [i \in 1..Len(s) |-> C("O", s[i])]
Esc(lab) == FlattenSeq([i \in 1..Len(lab) |-> IF Cls(lab[i]) = "Q" THEN <<lab[i], lab[i]>> ELSE <<lab[i]>>])
Quoted(lab) == QQ \o Esc(lab) \o QQ
\* number spellings as class sequences; the first character carries the abstract number
Num(n) ==
  CASE n.sp = "int"     -> <<CN("D", "d", n.id, -1)>>
    [] n.sp = "dec"     -> <<CN("D", "d", n.id, -1), C("DOT", 0), C("D", "d")>>
    [] n.sp = "exp"     -> <<CN("D", "d", n.id, -1), C("E", 0), C("MI", 0), C("D", "d")>>
    [] n.sp = "dexp"    -> <<CN("D", "d", n.id, -1), C("DOT", 0), C("D", "d"), C("E", 0), C("MI", 0), C("D", "d")>>
    [] n.sp = "plusexp" -> <<CN("D", "d", n.id, -1), C("E", 0), C("PL", 0), C("D", "d")>>
    [] n.sp = "neg0"    -> <<CN("MI", 0, n.id, -1), C("D", "d")>>
    [] n.sp = "trail0"  -> <<CN("D", "d", n.id, -1), C("DOT", 0), C("D", "d"), C("D", "z")>>
Count(k) == <<CN("D", <<"count", k>>, -2, k)>>
Line(parts) == FlattenSeq(parts) \o NLc
ClassTxt(kind) == IF kind = "I" THEN Txt(<<"IntervalTier">>) ELSE Txt(<<"TextTier">>)
ExFlag == <<C("LT", 0), C("O", "exists"), C("GT", 0)>>

EncShort(doc) ==
  Line(<<Word("File"), SPc, Word("type"), SPc, Word("="), SPc, Quoted(Txt(<<"ooTextFile">>))>>) \o
  Line(<<Word("Object"), SPc, Word("class"), SPc, Word("="), SPc, Quoted(Txt(<<"TextGrid">>))>>) \o NLc \o
  Line(<<Num(doc.lo)>>) \o Line(<<Num(doc.hi)>>) \o Line(<<ExFlag>>) \o Line(<<Count(Len(doc.tiers))>>) \o
  FlattenSeq([t \in 1..Len(doc.tiers) |-> LET T == doc.tiers[t] IN
     Line(<<Quoted(ClassTxt(T.kind))>>) \o Line(<<Quoted(T.name)>>) \o Line(<<Num(T.lo)>>) \o Line(<<Num(T.hi)>>) \o
     Line(<<Count(Len(T.ents))>>) \o
     FlattenSeq([i \in 1..Len(T.ents) |-> LET e == T.ents[i] IN
        IF T.kind = "I" THEN Line(<<Num(e.s)>>) \o Line(<<Num(e.e)>>) \o Line(<<Quoted(e.l)>>)
        ELSE Line(<<Num(e.t)>>) \o Line(<<Quoted(e.l)>>)])])

\* Praat's long layout (style "praat": 'item [1]:', trailing blank) and ELAN's ('item[1]:', 'intervals [1]', no trailing blank)
KV(ind, k, v, style) == Line(<<ind, Word(k), SPc, Word("="), SPc, v, IF style = "praat" THEN SPc ELSE <<>>>>)
ItemHdr(what, style) == IF style = "praat" THEN <<Word(what), SPc, Word("[i]:")>> ELSE <<Word(what \o "[i]:")>>
EntHdr(what, style) == IF style = "praat" THEN <<Word(what), SPc, Word("[i]:")>> ELSE <<Word(what), SPc, Word("[i]")>>
EncLong(doc, style) ==
  Line(<<Word("File"), SPc, Word("type"), SPc, Word("="), SPc, Quoted(Txt(<<"ooTextFile">>))>>) \o
  Line(<<Word("Object"), SPc, Word("class"), SPc, Word("="), SPc, Quoted(Txt(<<"TextGrid">>))>>) \o NLc \o
  KV(<<>>, "xmin", Num(doc.lo), style) \o KV(<<>>, "xmax", Num(doc.hi), style) \o
  Line(<<Word("tiers?"), SPc, ExFlag, SPc>>) \o KV(<<>>, "size", Count(Len(doc.tiers)), style) \o
  Line(<<Word("item"), SPc, Word("[]:"), SPc>>) \o
  FlattenSeq([t \in 1..Len(doc.tiers) |-> LET T == doc.tiers[t]
                                              ents == IF T.kind = "I" THEN "intervals" ELSE "points" IN
     Line(<<SPc>> \o ItemHdr("item", style)) \o KV(SPc, "class", Quoted(ClassTxt(T.kind)), style) \o
     KV(SPc, "name", Quoted(T.name), style) \o KV(SPc, "xmin", Num(T.lo), style) \o KV(SPc, "xmax", Num(T.hi), style) \o
     Line(<<SPc, Word(ents \o ":"), SPc, Word("size"), SPc, Word("="), SPc, Count(Len(T.ents)), SPc>>) \o
     FlattenSeq([i \in 1..Len(T.ents) |-> LET e == T.ents[i] IN
        Line(<<SPc>> \o EntHdr(ents, style)) \o
        (IF T.kind = "I" THEN KV(SPc, "xmin", Num(e.s), style) \o KV(SPc, "xmax", Num(e.e), style) \o KV(SPc, "text", Quoted(e.l), style)
         ELSE KV(SPc, "number", Num(e.t), style) \o KV(SPc, "mark", Quoted(e.l), style))])])

\* the content a document encodes: number ids only (the spelling is not content)
Content(doc) ==
  [ok |-> TRUE, lo |-> doc.lo.id, hi |-> doc.hi.id,
   tiers |-> [t \in 1..Len(doc.tiers) |-> LET T == doc.tiers[t] IN
      [kind |-> T.kind, name |-> Plain(T.name), lo |-> T.lo.id, hi |-> T.hi.id,
       ents |-> [i \in 1..Len(T.ents) |->
                   IF T.kind = "I" THEN [s |-> T.ents[i].s.id, e |-> T.ents[i].e.id, l |-> Plain(T.ents[i].l)]
                   ELSE [t |-> T.ents[i].t.id, l |-> Plain(T.ents[i].l)]]]]]

ModelK == [oo |-> Plain(Txt(<<"ooTextFile">>)), tg |-> Plain(Txt(<<"TextGrid">>)), it |-> Plain(Txt(<<"IntervalTier">>)),
           tt |-> Plain(Txt(<<"TextTier">>)), ex |-> Plain(ExFlag)]
=============================================================================
