---------------------------- MODULE MC_KlattMap ----------------------------
(* Model-checking wrapper of KlattMap: the index universe holds negative numbers, which a cfg file cannot spell. *)
EXTENDS KlattMap
MCIdxQuick == {NoIdx, 0, 1, -1, 5}
MCIdxThorough == {NoIdx, 0, 1, 2, -1, -2, -7, 5}
=============================================================================
