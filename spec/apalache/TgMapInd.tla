----------------------------- MODULE TgMapInd -----------------------------
(***************************************************************************)
(* The Textgrid as an ordered, uniquely-named tier map at property level   *)
(* (names and python list.insert positions only), with an inductive        *)
(* invariant checked by Apalache for UNBOUNDED histories:                   *)
(*   Init => IndInv            (--init=Init --inv=IndInv --length=0)       *)
(*   IndInv /\ Next => IndInv' (--init=IndInit --inv=IndInv --length=1)    *)
(* over 4 names and at most 5 slots: names stay unique under every         *)
(* sequence of add (any index incl. out-of-range/negative), remove,        *)
(* rename, replace - not only up to the depth TLC explores.                *)
(***************************************************************************)
EXTENDS Integers, Sequences, FiniteSets, Apalache

Names == {"n1", "n2", "n3", "n4"}
MaxSlots == 5

VARIABLES
  \* @type: Seq(Str);
  order

Has(x) == \E i \in DOMAIN order : order[i] = x
\* python list.insert(idx, x)
\* @type: (Seq(Str), Int, Str) => Seq(Str);
PyInsert(s, idx, x) ==
  LET n == Len(s)
      i == IF idx < 0 THEN (IF n + idx < 0 THEN 0 ELSE n + idx) ELSE (IF idx > n THEN n ELSE idx)
  IN SubSeq(s, 1, i) \o <<x>> \o SubSeq(s, i + 1, n)

Init == order = <<>>
Add(n, idx) == ~Has(n) /\ Len(order) < MaxSlots /\ order' = PyInsert(order, idx, n)
AddRejected(n) == Has(n) /\ order' = order
Remove(n) == Has(n) /\ order' = SelectSeq(order, LAMBDA x : x # n)
Rename(o, n) == /\ Has(o) /\ (n = o \/ ~Has(n))
                /\ LET \* @type: (Seq(Str), Str) => Seq(Str);
                       Step(acc, x) == Append(acc, IF x = o THEN n ELSE x)
                   IN order' = ApaFoldSeqLeft(Step, <<>>, order)
RenameRejected(o, n) == Has(o) /\ n # o /\ Has(n) /\ order' = order
Next == \/ \E n \in Names, idx \in (-2)..(MaxSlots + 2) : Add(n, idx)
        \/ \E n \in Names : AddRejected(n) \/ Remove(n)
        \/ \E o \in Names, n \in Names : Rename(o, n) \/ RenameRejected(o, n)

Unique == \A i, j \in DOMAIN order : i # j => order[i] # order[j]
TypeOK == Len(order) <= MaxSlots /\ \A i \in DOMAIN order : order[i] \in Names
IndInv == TypeOK /\ Unique
\* any state satisfying the invariant (not only reachable ones)
IndInit == order = Gen(5) /\ IndInv
=============================================================================
