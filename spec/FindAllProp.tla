---------------------------- MODULE FindAllProp ----------------------------
(* What utils.findAll promises, over sequences of characters (0-based positions), and the clauses that judge a recorded call   *)
(* [op = "findAll", txt, sub, st, ret].                                                                                       *)
EXTENDS Integers, Sequences, FiniteSets
\* subStr occurs in txt at 0-based position p
At(txt, sub, p) == p + Len(sub) <= Len(txt) /\ \A k \in 1..Len(sub) : txt[p + k] = sub[k]
\* python's txt.index(sub, from): the least position >= from, or -1 for ValueError
IndexFrom(txt, sub, from) == IF \E p \in from..Len(txt) : At(txt, sub, p)
                             THEN CHOOSE p \in from..Len(txt) : At(txt, sub, p) /\ \A q \in from..(p - 1) : ~At(txt, sub, q)
                             ELSE -1
Occurrences(txt, sub) == {p \in 0..Len(txt) : At(txt, sub, p)}

FindAllClauses(e) ==
  [ X04_never_fails |-> e.st = "ok",
    X04_every_occurrence_once |-> e.st = "ok" => {e.ret[i] : i \in 1..Len(e.ret)} = Occurrences(e.txt, e.sub)
                                                  /\ Len(e.ret) = Cardinality(Occurrences(e.txt, e.sub)),
    X04_ascending |-> e.st = "ok" => \A i \in 1..(Len(e.ret) - 1) : e.ret[i] < e.ret[i + 1] ]
FindAllFails(e) == {k \in DOMAIN FindAllClauses(e) : ~FindAllClauses(e)[k]}
=============================================================================
