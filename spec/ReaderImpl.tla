----------------------------- MODULE ReaderImpl -----------------------------
(***************************************************************************)
(* Transcription of the pure string decisions of praatio's text readers    *)
(* (utilities/textgrid_io.py), on the same character sequences the         *)
(* specification's writers produce:                                        *)
(*   - _fetchTextRow: a text ends at the first run of double quotes of odd *)
(*     length found after its opening quote; the content is un-doubled;    *)
(*   - parseTextgridStr: the short reader is chosen iff the text contains  *)
(*     "ooTextFile short" or does not contain "item [";                    *)
(*   - _parseShortTextgrid: tier blocks start wherever the text contains   *)
(*     "IntervalTier" or "TextTier" in double quotes.                      *)
(* TLC compares each with the specification's lexer over the label         *)
(* universe: the quote-run rule agrees with the lexer on every label; the  *)
(* two keyword searches are right exactly on documents whose names and     *)
(* labels do not contain those keywords - which characterises, at design   *)
(* level, the known finding of C01/C03.                                    *)
(***************************************************************************)
EXTENDS PraatText, TLC

\* ---- _fetchTextRow on text starting at the opening quote (index 1)
RECURSIVE RunEnd(_, _)
RunEnd(s, i) == IF i <= Len(s) /\ Cls(s[i]) = "Q" THEN RunEnd(s, i + 1) ELSE i      \* first index after the run starting at i
RECURSIVE NextQuote(_, _)
NextQuote(s, i) == IF i > Len(s) THEN 0 ELSE IF Cls(s[i]) = "Q" THEN i ELSE NextQuote(s, i + 1)
RECURSIVE FindEnd(_, _)
FindEnd(s, from) ==            \* returns the index just after the terminating quote run, or 0 (python: ValueError)
  LET q == NextQuote(s, from) IN
  IF q = 0 THEN 0
  ELSE LET e == RunEnd(s, q) IN IF (e - q) % 2 # 0 THEN e ELSE FindEnd(s, e)
RECURSIVE Undouble(_)
Undouble(w) == IF Len(w) >= 2 /\ Cls(w[1]) = "Q" /\ Cls(w[2]) = "Q" THEN <<w[1]>> \o Undouble(SubSeq(w, 3, Len(w)))
               ELSE IF w = <<>> THEN <<>> ELSE <<w[1]>> \o Undouble(Tail(w))
FetchTextRow(s) == LET e == FindEnd(s, 2) IN
                   IF e = 0 THEN [ok |-> FALSE] ELSE [ok |-> TRUE, text |-> Undouble(SubSeq(s, 2, e - 2))]

\* ---- keyword searches on the character sequences (a keyword is a short pattern of abstract characters)
IsItemBracketAt(s, i) == /\ i + 2 <= Len(s) /\ s[i][1] = "O" /\ s[i][2] = "item" /\ Cls(s[i + 1]) = "SP"
                         /\ s[i + 2][1] = "O" /\ s[i + 2][2] \in {"[2]:", "[i]:", "[]:"}
HasItemBracket(s) == \E i \in 1..Len(s) : IsItemBracketAt(s, i)
IsClassQuoteAt(s, i) == /\ i + 2 <= Len(s) /\ Cls(s[i]) = "Q" /\ s[i + 1][1] = "O" /\ s[i + 1][2] \in {"IntervalTier", "TextTier"}
                        /\ Cls(s[i + 2]) = "Q"
ClassQuoteCount(s) == Cardinality({i \in 1..Len(s) : IsClassQuoteAt(s, i)})
SniffsShort(s) == ~HasItemBracket(s)          \* ("ooTextFile short" is not in the universe's alphabet)

\* ---- what TLC checks
\* (1) for every label: praatio's terminator rule recovers exactly the label from its escaped form followed by a newline
QuoteRuleAgrees(lab) == LET r == FetchTextRow(Quoted(lab) \o NLc \o Quoted(Txt(<<"next">>)) \o NLc) IN r.ok /\ Plain(r.text) = Plain(lab)
\* (2) a document is read by the right reader, and the short reader finds exactly one block per tier, iff no keyword
\*     occurs in a name or label
DocTexts(doc) == [t \in 1..Len(doc.tiers) |-> doc.tiers[t].name] \o
                 FlattenSeq([t \in 1..Len(doc.tiers) |-> [i \in 1..Len(doc.tiers[t].ents) |-> doc.tiers[t].ents[i].l]])
KeywordFree(doc) == \A k \in 1..Len(DocTexts(doc)) : ~HasItemBracket(DocTexts(doc)[k]) /\ ClassQuoteCount(Quoted(DocTexts(doc)[k])) = 0
SniffRight(doc) == SniffsShort(EncShort(doc)) /\ ~SniffsShort(EncLong(doc, "praat"))
BlocksRight(doc) == ClassQuoteCount(EncShort(doc)) = Len(doc.tiers)
=============================================================================
