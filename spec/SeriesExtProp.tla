--------------------------- MODULE SeriesExtProp ---------------------------
(***************************************************************************)
(* Growth beyond the listed properties (X03): my_math.znormWindowFilter.   *)
(* Event: [op = "zwindow", xs (integers), args [window, pad, filterZero],  *)
(* st, ret] with ret[i] = round(100 * value) of the returned series.       *)
(* Each value is z-normalised within its window (the same windows as the   *)
(* median filter: the element and window div 2 neighbours on either side,  *)
(* the series extended by its edge values when edge padding is on); where  *)
(* the window does not apply the value is passed through; with             *)
(* filterZeroValues the non-positive values are taken out first and come   *)
(* back as 0 at their positions.  z = (c - mean) / sample deviation, so    *)
(* z^2 = (n c - S)^2 (n - 1) / (n (n Q - S^2)) with S, Q the sum and the   *)
(* sum of squares of the window: compared in integers.                     *)
(***************************************************************************)
EXTENDS SeriesProp

\* r = round(100 z) up to rounding of the last digit, for centre c of window w
ZOK(r, c, w) ==
  LET n == Len(w)  S == SumSeq(w)  Q == SumSq(w)
      num == (n * c - S) * (n * c - S) * (n - 1)
      den == n * (n * Q - S * S)
  IN /\ AbsQ(r) <= 400              \* |z| <= (n - 1) / sqrt(n) < 2.3 for windows up to 7; also keeps the products below within 32 bits
     /\ (n * c - S > 0 => r >= 0) /\ (n * c - S < 0 => r <= 0) /\ (n * c - S = 0 => r = 0)
     /\ AbsQ(r * r * den - 10000 * num) <= (AbsQ(r) + 1) * den
HasSpread(w) == Len(w) >= 2 /\ Len(w) * SumSq(w) - SumSeq(w) * SumSeq(w) > 0

ZWindowClauses(e) ==
  LET xs == e.xs  o == e.args.window \div 2  pad == e.args.pad  fz == e.args.filterZero
      keptIdx == SelectSeq([i \in IdxQ(xs) |-> i], LAMBDA i : ~fz \/ xs[i] > 0)        \* positions that are normalised
      d == [k \in IdxQ(keptIdx) |-> xs[keptIdx[k]]]
      n == Len(d)
      applies(k) == pad \/ (k - o >= 1 /\ k + o <= n)
      defined == \A k \in 1..n : applies(k) => HasSpread(WindowAt(d, k, o))
      r == e.ret
      good == OkS(e) /\ Len(r) = Len(xs)
  IN [ X03_succeeds_iff_every_window_has_at_least_two_values_and_spread |-> OkS(e) <=> defined,
       X03_same_length |-> OkS(e) => Len(r) = Len(xs),
       X03_removed_values_come_back_as_zero |-> good => \A i \in IdxQ(xs) : (fz /\ xs[i] <= 0) => r[i] = 0,
       X03_z_score_within_the_window |-> (good /\ defined) => \A k \in 1..n : applies(k) => ZOK(r[keptIdx[k]], d[k], WindowAt(d, k, o)),
       X03_values_without_a_full_window_pass_through |-> good => \A k \in 1..n : ~applies(k) => r[keptIdx[k]] = 100 * d[k] ]

SeriesExtFails(e) == CASE e.op = "zwindow" -> FailsOfS(ZWindowClauses(e))
                       [] OTHER -> SeriesFails(e)
=============================================================================
