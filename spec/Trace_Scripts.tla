----------------------------- MODULE Trace_Scripts -----------------------------
(* Trace validation for the growth families: "scripts" events (ScriptsProp) recorded from the real      *)
(* splitTierEntries / spellCheckEntries.  Sets arrive as JSON arrays and are turned into sets here.     *)
EXTENDS ScriptsProp, TLC, TLCExt, Json, IOUtils
Events == ndJsonDeserialize(IOEnv.TRACE_FILE)
Norm(e) == IF e.op = "spell" THEN [e EXCEPT !.args = [@ EXCEPT !.bad = ToSet(@)]] ELSE e
FailsE(e) == ScriptsFails(Norm(e))
VARIABLE l
TraceInit == l = 1
TraceNext == /\ l <= Len(Events)
             /\ LET e == Events[l]
                    f == FailsE(e)
                IN IF f = {} THEN TRUE ELSE PrintT(<<"VERDICT", e.id, f>>)
             /\ l' = l + 1
TraceSpec == TraceInit /\ [][TraceNext]_l
AllConsumed == TLCGet("stats").diameter - 1 = Len(Events)
=============================================================================
