----------------------------- MODULE Trace_Tier -----------------------------
(***************************************************************************)
(* Trace validation for the tier family: every line of the NDJSON file     *)
(* named by the environment variable TRACE_FILE is one call made on the    *)
(* real praatio code (receiver before/after, arguments, status, returned   *)
(* tier, projected to integers by the harness).  TLC evaluates the clause  *)
(* set of TierProp on every event and prints a verdict line for each event *)
(* with a non-empty set of failing clauses.  Verdicts are total: a failing *)
(* event never stops the run.  The postcondition checks that every line    *)
(* was consumed.                                                           *)
(***************************************************************************)
EXTENDS TierProp, QueryProp, TLC, TLCExt, Json, IOUtils

Events == ndJsonDeserialize(IOEnv.TRACE_FILE)

VARIABLE l
TraceInit == l = 1
TraceNext == /\ l <= Len(Events)
             /\ LET e == Events[l]
                    f == IF e.fam = "query" THEN QueryFails(e) \cup (IF e.offgrid = 0 THEN {} ELSE {"times_off_grid"})
                         ELSE Fails(e) \cup (IF e.offgrid = 0 THEN {} ELSE {"times_off_grid"})
                                       \cup (IF e.rawwf THEN {} ELSE {"C05_raw_float_wellformed"})
                                       \cup (IF e.validok THEN {} ELSE {"C05_validate_agrees"})
                IN IF f = {} THEN TRUE ELSE PrintT(<<"VERDICT", e.id, f>>)
             /\ l' = l + 1
TraceSpec == TraceInit /\ [][TraceNext]_l
AllConsumed == TLCGet("stats").diameter - 1 = Len(Events)
=============================================================================
