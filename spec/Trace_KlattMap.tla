--------------------------- MODULE Trace_KlattMap ---------------------------
(* Trace validation of recorded _KlattBaseTier.addTier steps: each real step must be the KlattMap action from the real   *)
(* state before it (status, name list, dictionary, span), and __eq__ must be equality of that state.                    *)
EXTENDS Integers, Sequences, FiniteSets, TLC, TLCExt, Json, IOUtils
Events == ndJsonDeserialize(IOEnv.TRACE_FILE)
M == INSTANCE KlattMap WITH Names <- {}, TMax <- 0, Depth <- 0, Emit <- FALSE, IdxSet <- {},
                            names <- <<>>, kids <- <<>>, lo <- -1, hi <- -1, failed <- FALSE, hist <- <<>>
VARIABLE l
TraceInit == l = 1
TraceNext == /\ l <= Len(Events)
             /\ LET e == Events[l]
                    f == M!KlattMapFails(e)
                IN IF f = {} THEN TRUE ELSE PrintT(<<"VERDICT", e.id, f>>)
             /\ l' = l + 1
TraceSpec == TraceInit /\ [][TraceNext]_l
AllConsumed == TLCGet("stats").diameter - 1 = Len(Events)
=============================================================================
