--------------------------- MODULE TierUniverse ---------------------------
(* All well-formed tiers with at most K entries on the grid 0..N, labels from LabelsU, with a fixed span [0, N]. *)
EXTENDS Grid
CONSTANTS N, K, LabelsU

RECURSIVE Geo(_, _)
Geo(from, k) ==
  IF k = 0 THEN {<<>>}
  ELSE {<<>>} \cup UNION { UNION { { <<[s |-> s, e |-> e]>> \o rest : rest \in Geo(e, k - 1) } : e \in (s + 1)..N } : s \in from..(N - 1) }
LabelledI(g) == { [i \in Idx(g) |-> Iv(g[i].s, g[i].e, f[i])] : f \in [Idx(g) -> LabelsU] }
IvTiers(name) == UNION { { MkTier("I", name, 0, N, es) : es \in LabelledI(g) } : g \in Geo(0, K) }

RECURSIVE GeoP(_, _)
GeoP(from, k) ==
  IF k = 0 THEN {<<>>}
  ELSE {<<>>} \cup UNION { { <<[t |-> t]>> \o rest : rest \in GeoP(t + 1, k - 1) } : t \in from..N }
LabelledP(g) == { [i \in Idx(g) |-> Pt(g[i].t, f[i])] : f \in [Idx(g) -> LabelsU] }
PtTiers(name) == UNION { { MkTier("P", name, 0, N, ps) : ps \in LabelledP(g) } : g \in GeoP(0, K) }
=============================================================================
