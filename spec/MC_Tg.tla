------------------------------- MODULE MC_Tg -------------------------------
(***************************************************************************)
(* The Textgrid state machine.                                             *)
(*  Mode "map":  starts from the empty textgrid and explores every history *)
(*   of addTier / removeTier / renameTier / replaceTier (C12's universe:   *)
(*   NNames names, <= MaxSlots tiers, indices -2 .. len+2 and None,        *)
(*   reporting modes, tier spans inside/equal/wider) to depth Depth.       *)
(*  Mode "edit": starts from every two-tier textgrid over a small tier     *)
(*   universe and applies every tier-wise edit, appendTextgrid, mergeTiers *)
(*   and new once.                                                         *)
(* Results come from TgImpl; NoFail judges them with TgProp.               *)
(***************************************************************************)
EXTENDS TgProp, TLC, Json

CONSTANTS Mode, NNames, MaxSlots, NVariants, Depth, N, K, Ops, Emit, Slice, NSlices

VARIABLES tg, other, out
vars == <<tg, other, out>>

NameOf(i) == "n" \o ToString(i)
NameSet == {NameOf(i) : i \in 1..NNames}
\* tier variants: span equal to / inside / wider than the base span [0, 4]
Variant(n, v) ==
  CASE v = 1 -> MkTier("I", n, 0, 4, <<Iv(1, 2, "a")>>)
    [] v = 2 -> MkTier("P", n, 1, 3, <<Pt(2, "b")>>)
    [] v = 3 -> MkTier("I", n, 0, 6, <<Iv(0, 5, "b")>>)
    [] OTHER -> MkTier("P", n, 0, 4, <<>>)

U == INSTANCE TierUniverse WITH N <- N, K <- K, LabelsU <- {"a", "b"}
\* a tier whose own span is narrower than the textgrid's makes the textgrid invalid: include a few
Narrow(t) == [t EXCEPT !.hi = IF t.ents = <<>> THEN N - 1 ELSE Max2(N - 1, IF t.kind = "I" THEN t.ents[Len(t.ents)].e ELSE t.ents[Len(t.ents)].t)]
EditTgs == { MkTg(0, N, <<a, b>>) : a \in U!IvTiers("n1"), b \in U!PtTiers("n2") }
           \cup { MkTg(0, N, <<a, b>>) : a \in U!IvTiers("n1"), b \in { Narrow(x) : x \in U!IvTiers("n2") } }
           \cup { MkTg(0, N, <<b, a>>) : a \in U!PtTiers("n1"), b \in { Narrow(x) : x \in U!IvTiers("n2") } }     \* the narrower tier first
           \cup { MkTg(0, N, <<>>) }             \* no tiers: only the textgrid's own argument checks can reject a call
ESeq == SetToSeq(EditTgs)
MyEdit == { ESeq[i] : i \in { j \in 1..Len(ESeq) : j % NSlices = Slice } }
\* second operands for appendTextgrid: equal, overlapping and disjoint name sets
Others == { MkTg(0, 2, <<MkTier("I", "n1", 0, 2, <<Iv(0, 1, "b")>>), MkTier("P", "n2", 0, 2, <<Pt(0, "a"), Pt(2, "b")>>)>>),
            MkTg(0, 3, <<MkTier("P", "n2", 0, 3, <<Pt(1, "a")>>), MkTier("I", "n3", 0, 3, <<Iv(1, 3, "a")>>)>>),
            MkTg(0, 2, <<MkTier("I", "n4", 0, 2, <<>>)>>),
            MkTg(0, 2, <<MkTier("P", "n1", 0, 2, <<>>)>>),                 \* same name, other type, no entries
            MkTg(1, 3, <<MkTier("I", "n2", 1, 3, <<Iv(1, 2, "a")>>), MkTier("I", "n1", 1, 3, <<Iv(2, 3, "b")>>)>>) }

NoCall == [op |-> "none"]
Ev(op, args, argt, argtg, r, each) ==
  [op |-> op, args |-> args, pre |-> tg, argt |-> argt, argtg |-> argtg, st |-> r.st,
   pe |-> r.st \in {"ArgumentError", "CollisionError", "OutOfBounds", "TextgridStateError", "TierNameExistsError",
                    "TextgridStateAutoModified", "WrongOption"},
   ret |-> r.ret, rett |-> r.rett, post |-> r.post, argtpost |-> argt, argtgpost |-> argtg, out |-> r.out,
   each |-> each, valid |-> IF IsTg(r.ret) THEN ValidTg(r.ret) ELSE TRUE, alias |-> FALSE, variant |-> 0,
   arith |-> TRUE, exactfp |-> TRUE]

Init == /\ tg \in (IF Mode = "map" THEN {EmptyTg(Unset, Unset)} ELSE MyEdit)
        /\ other = NoTg
        /\ out = NoCall

Call(op, args, argt, argtg, r, each) == out' = Ev(op, args, argt, argtg, r, each) /\ tg' = r.post /\ other' = other

Indices == (-2..(Len(tg.tiers) + 2)) \cup {99}
DoAdd == "addTier" \in Ops /\ Len(tg.tiers) < MaxSlots /\ \E n \in NameSet, v \in 1..NVariants, idx \in Indices, m \in {"warning", "error"} :
            Call("addTier", [idx |-> idx, mode |-> m], Variant(n, v), NoTg, AddTier(tg, Variant(n, v), idx, m), <<>>)
DoRemove == "removeTier" \in Ops /\ \E n \in NameSet : Call("removeTier", [name |-> n], NoTier, NoTg, RemoveTier(tg, n), <<>>)
DoRename == "renameTier" \in Ops /\ \E o \in NameSet, n \in NameSet : Call("renameTier", [old |-> o, new |-> n], NoTier, NoTg, RenameTier(tg, o, n), <<>>)
DoReplace == "replaceTier" \in Ops /\ \E o \in NameSet, n \in NameSet, v \in 1..NVariants, m \in {"silence", "error"} :
            Call("replaceTier", [name |-> o, mode |-> m], Variant(n, v), NoTg, ReplaceTier(tg, o, Variant(n, v), m), <<>>)

GridT == 0..N
EachOf(f(_)) == [i \in Idx(tg.tiers) |-> LET r == f(tg.tiers[i]) IN [st |-> r.st, ret |-> r.ret]]
DoCropTg == "cropTg" \in Ops /\ \E a \in GridT, b \in GridT, m \in {"strict", "lax", "truncated"}, z \in BOOLEAN :
            Call("cropTg", [a |-> a, b |-> b, mode |-> m, rebase |-> z], NoTier, NoTg, CropTg(tg, a, b, m, z),
                 EachOf(LAMBDA t : Crop(t, a, b, m, z)))
DoEraseTg == "eraseTg" \in Ops /\ \E a \in GridT, b \in GridT, z \in BOOLEAN :
            Call("eraseTg", [a |-> a, b |-> b, shrink |-> z], NoTier, NoTg, EraseTg(tg, a, b, z),
                 EachOf(LAMBDA t : Erase(t, a, b, "truncate", z)))
DoSpaceTg == "spaceTg" \in Ops /\ \E s \in GridT, d \in 1..2, m \in {"stretch", "split", "no_change", "error"} :
            Call("spaceTg", [s |-> s, d |-> d, mode |-> m], NoTier, NoTg, SpaceTg(tg, s, d, m),
                 EachOf(LAMBDA t : InsertSpace(t, s, d, m)))
DoEditTg == "editTg" \in Ops /\ \E o \in (-(N + 1))..2, m \in {"silence", "warning", "error"} :
            Call("editTg", [o |-> o, mode |-> m], NoTier, NoTg, EditTg(tg, o, m), EachOf(LAMBDA t : Edit(t, o, m)))
DoAppendTg == "appendTg" \in Ops /\ \E b \in Others, only \in BOOLEAN :
            Call("appendTg", [only |-> only], NoTier, b, AppendTg(tg, b, only), <<>>)
DoMergeTg == "mergeTg" \in Ops /\ \E names \in {<<"n1", "n2">>, <<"n2", "n1">>, <<"n1">>}, p \in BOOLEAN :
            LET ordered == IF \A i \in Idx(names) : HasName(tg, names[i]) THEN [i \in Idx(names) |-> TierNamed(tg, names[i])] ELSE <<>>
                ivs == SelectSeq(ordered, LAMBDA t : t.kind = "I")
                pts == SelectSeq(ordered, LAMBDA t : t.kind = "P")
                fi == IF ivs = <<>> THEN <<>> ELSE LET u == UnionFold([st |-> "ok", tier |-> ivs[1]], Tail(ivs)) IN <<[st |-> u.st, ret |-> IF u.st = "ok" THEN u.tier ELSE NoTier]>>
                fp == IF pts = <<>> THEN <<>> ELSE LET u == UnionFold([st |-> "ok", tier |-> pts[1]], Tail(pts)) IN <<[st |-> u.st, ret |-> IF u.st = "ok" THEN u.tier ELSE NoTier]>>
            IN Call("mergeTg", [names |-> names, preserve |-> p], NoTier, NoTg, MergeTg(tg, names, p), fi \o fp)
DoNewTg == "newTg" \in Ops /\ Call("newTg", [k |-> 0], NoTier, NoTg, NewTg(tg), <<>>)

Continue == out.op # "none" /\ tg' = tg /\ other' = other /\ out' = NoCall
DoCall == DoAdd \/ DoRemove \/ DoRename \/ DoReplace \/ DoCropTg \/ DoEraseTg \/ DoSpaceTg \/ DoEditTg \/ DoAppendTg \/ DoMergeTg \/ DoNewTg
Next == (out.op = "none" /\ DoCall) \/ (Depth > 1 /\ Continue)
Spec == Init /\ [][Next]_vars

FailSet == IF out.op = "none" THEN {} ELSE TgFails(out)
NoFail == IF FailSet = {} THEN TRUE ELSE PrintT(<<"FAILS", FailSet, out>>) /\ FALSE
\* C12 at design level, in every reachable state
NamesUnique == UniqueNames(tg)
SpanCovers == \A i \in Idx(tg.tiers) : tg.lo <= tg.tiers[i].lo /\ tg.tiers[i].hi <= tg.hi
\* C13 as action properties
FailedMutatorNoChange == [][out'.op # "none" /\ out'.st # "ok" => tg' = tg]_vars
CopyOpsPure == [][out'.op # "none" /\ IsTgCopyOp(out'.op) => tg' = tg]_vars
SpanNeverShrinks == [][tg.lo # Unset /\ tg'.lo # Unset => tg'.lo <= tg.lo /\ tg'.hi >= tg.hi]_vars
EmitInv == IF Emit /\ out.op # "none" THEN PrintT(ToJson(out)) ELSE TRUE
Bound == TLCGet("level") <= 2 * Depth
=============================================================================
