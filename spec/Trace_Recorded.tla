--------------------------- MODULE Trace_Recorded ---------------------------
(***************************************************************************)
(* Trace validation of calls recorded from the repository's own tests and  *)
(* examples (harness/recorder_plugin.py).  Fixture timestamps have no      *)
(* common grid, so all floats of one event are abstracted by RANK (order   *)
(* preserved, arithmetic destroyed) and labels by identity tokens; only    *)
(* the order-only clauses are judged: C05 well-formedness of every tier    *)
(* that comes back, C13 receiver/argument unchanged for copy-returning     *)
(* operations and queries, all-or-nothing for mutators.                    *)
(* Event: [recv ("tier"|"tg"), op, mutator, st, pe, pre, post, argpre,      *)
(*         argpost, ret (sequence of tiers: <<>>, one tier, or a textgrid's)] *)
(***************************************************************************)
EXTENDS Grid, TLC, TLCExt, Json, IOUtils

Events == ndJsonDeserialize(IOEnv.TRACE_FILE)
WFAll(ts) == \A i \in Idx(ts) : WFTier(ts[i])
FailsR(e) ==
  (IF ~e.mutator /\ e.post # e.pre THEN {"C13_receiver_unchanged"} ELSE {})
  \cup (IF e.argpost # e.argpre THEN {"C13_argument_unchanged"} ELSE {})
  \cup (IF e.mutator /\ e.st # "ok" /\ e.post # e.pre THEN {"C13_failed_mutator_unchanged"} ELSE {})
  \cup (IF e.st = "ok" /\ ~WFAll(e.ret) THEN {"C05_ret_wellformed"} ELSE {})
  \cup (IF WFAll(e.pretiers) /\ e.mutator /\ e.st = "ok" /\ ~WFAll(e.posttiers) THEN {"C05_post_wellformed"} ELSE {})
VARIABLE l
TraceInit == l = 1
TraceNext == /\ l <= Len(Events)
             /\ LET e == Events[l]
                    f == FailsR(e)
                IN IF f = {} THEN TRUE ELSE PrintT(<<"VERDICT", e.id, f>>)
             /\ l' = l + 1
AllConsumed == TLCGet("stats").diameter - 1 = Len(Events)
=============================================================================
