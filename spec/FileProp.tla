------------------------------ MODULE FileProp ------------------------------
(***************************************************************************)
(* Property layer of the file family (C01-C04).                            *)
(*                                                                         *)
(* Documents: [lo, hi, tiers]; tier [kind, name, lo, hi, ents]; entries    *)
(* [s, e, l] / [t, l]; names and labels are sequences of <<class, code>>.  *)
(* Numbers are integers: RANKS of the floats of one event (equal rank <=>  *)
(* bit-identical float, rank order = numeric order) in the fidelity        *)
(* properties C01-C03, or GRID coordinates (exact multiples of a dyadic    *)
(* unit) in C04 where lengths are compared with the threshold.             *)
(* A number of the in-memory document is a record [v, alt]: alt is the     *)
(* rank of the integer the value is within 1e-14 (relative) of, or -1; a   *)
(* file may contain either.                                                *)
(***************************************************************************)
EXTENDS PraatText

FailsOf(r) == {k \in DOMAIN r : ~r[k]}
Idx(s) == 1..Len(s)
M(x, n) == n = x.v \/ (x.alt # -1 /\ n = x.alt) \/ (x.alt2 # -1 /\ n = x.alt2)   \* memory number x is written/read as n
IsEmptyLabel(l) == l = <<>>

(* ---------------- blank filling as the statement describes it (order comparisons only) *)
RECURSIVE FillGaps(_, _, _)
FillGaps(es, prev, acc) ==
  IF es = <<>> THEN acc
  ELSE LET x == Head(es)
           acc2 == IF prev < x.s THEN Append(acc, [s |-> prev, e |-> x.s, l |-> <<>>]) ELSE acc
       IN FillGaps(Tail(es), x.e, Append(acc2, x))
Fill(es, lo, hi) ==
  IF es = <<>> THEN <<[s |-> lo, e |-> hi, l |-> <<>>]>>
  ELSE LET body == FillGaps(es, lo, <<>>)
       IN IF body[Len(body)].e < hi THEN Append(body, [s |-> body[Len(body)].e, e |-> hi, l |-> <<>>]) ELSE body
IsPartition(w, lo, hi) == /\ w # <<>> /\ w[1].s = lo /\ w[Len(w)].e = hi
                          /\ \A i \in Idx(w) : w[i].s < w[i].e
                          /\ \A i \in 1..(Len(w) - 1) : w[i].e = w[i + 1].s

(* value of a memory number as a plain int (grid mode: alt is never used) *)
V(x) == x.v
PlainEnts(tier) == IF tier.kind = "I" THEN [i \in Idx(tier.ents) |-> [s |-> V(tier.ents[i].s), e |-> V(tier.ents[i].e), l |-> tier.ents[i].l]]
                   ELSE [i \in Idx(tier.ents) |-> [t |-> V(tier.ents[i].t), l |-> tier.ents[i].l]]

(* do decoded entries d match memory entries m (numbers up to the near-integer allowance)? *)
EntsMatch(kind, m, d) ==
  /\ Len(m) = Len(d)
  /\ \A i \in Idx(m) : IF kind = "I" THEN M(m[i].s, d[i].s) /\ M(m[i].e, d[i].e) /\ m[i].l = d[i].l
                                      ELSE M(m[i].t, d[i].t) /\ m[i].l = d[i].l
(* with blanks: the decoded tier is the memory tier with empty intervals in the gaps *)
RECURSIVE FilledMatch(_, _, _, _, _)
FilledMatch(m, d, prevEnd, fileHi, first) ==
  \* walk d; every element is either the next memory entry or a blank spanning exactly a gap
  IF d = <<>> THEN m = <<>> /\ prevEnd = fileHi
  ELSE LET x == Head(d) IN
       /\ x.s = prevEnd
       /\ IF m # <<>> /\ M(Head(m).s, x.s) /\ M(Head(m).e, x.e) /\ Head(m).l = x.l
          THEN FilledMatch(Tail(m), Tail(d), x.e, fileHi, FALSE)
          ELSE /\ x.l = <<>> /\ x.s < x.e
               /\ (m = <<>> \/ M(Head(m).s, x.e))              \* the blank ends where the next entry starts ...
               /\ (m # <<>> \/ x.e = fileHi)                   \* ... or at the end of the file
               /\ FilledMatch(m, Tail(d), x.e, fileHi, FALSE)

(* ---------------- C04: the sliver relation (grid numbers; T2 = twice the threshold) -------- *)
Len2(x) == 2 * (x.e - x.s)
LongLab(es, T2) == SelectSeq(es, LAMBDA x : x.l # <<>> /\ Len2(x) >= T2)
Labelled(w) == SelectSeq(w, LAMBDA x : x.l # <<>>)
RECURSIVE ReachR(_, _, _, _)
ReachR(f, q, i, T2) == IF i > Len(f) THEN q
                       ELSE IF f[i].s = q /\ Len2(f[i]) < T2 THEN ReachR(f, f[i].e, i + 1, T2)
                       ELSE IF f[i].s < q THEN ReachR(f, q, i + 1, T2) ELSE q
RECURSIVE ReachL(_, _, _, _)
ReachL(f, q, i, T2) == IF i < 1 THEN q
                       ELSE IF f[i].e = q /\ Len2(f[i]) < T2 THEN ReachL(f, f[i].s, i - 1, T2)
                       ELSE IF f[i].e > q THEN ReachL(f, q, i - 1, T2) ELSE q

PrepClauses(es, lo, hi, w, T2) ==
  LET f == Fill(es, lo, hi)  L == LongLab(es, T2)  W == Labelled(w)
      allSlivers == \A i \in Idx(f) : Len2(f[i]) < T2
  IN [ C04_every_long_labelled_interval_written_in_order |-> Len(W) = Len(L) /\ \A i \in Idx(L) : i <= Len(W) => W[i].l = L[i].l,
       C04_boundaries_move_only_through_absorbed_slivers |-> Len(W) = Len(L) =>
            \A i \in Idx(L) : /\ ReachL(f, L[i].s, Len(f), T2) <= W[i].s /\ W[i].s <= L[i].s
                              /\ L[i].e <= W[i].e /\ W[i].e <= ReachR(f, L[i].e, 1, T2),
       C04_no_written_interval_below_threshold |-> \A i \in Idx(w) : Len2(w[i]) >= T2,
       C04_written_tier_partitions_file_span |-> allSlivers \/ IsPartition(w, lo, hi) ]
PrepClausesNoT(es, lo, hi, w) ==
  [ C04_threshold_off_nothing_absorbed |-> Labelled(w) = Labelled(es),
    C04_threshold_off_positive_lengths |-> \A i \in Idx(w) : w[i].s < w[i].e,
    C04_written_tier_partitions_file_span |-> IsPartition(w, lo, hi) ]

(* ---------------- "save" events (C02, C04) -------------------------------------------------- *)
(* e = [args: [blanks, haslo, lo, hashi, hi, useT, T2], mem, st, pe, texts: [short, long],       *)
(*      jsons: [json, tgjson], K, grid]                                                         *)
Decoded(e, f) == CASE f = "short" -> Decode(e.texts.short, e.K)
                   [] f = "long" -> Decode(e.texts.long, e.K)
                   [] f = "json" -> e.jsons.json
                   [] f = "tgjson" -> e.jsons.tgjson
Formats == {"short", "long", "json", "tgjson"}
\* the requested file span as a memory number ([v, alt]); FileLo/FileHi: its plain value (grid mode)
ReqLo(e) == IF e.args.haslo THEN e.args.lo ELSE e.mem.lo
ReqHi(e) == IF e.args.hashi THEN e.args.hi ELSE e.mem.hi
FileLo(e) == V(ReqLo(e))
FileHi(e) == V(ReqHi(e))
NumOK(e, x, n) == IF e.grid THEN n = V(x) ELSE M(x, n)
\* an entry of an interval tier (with blanks on: of any tier) outside the requested span
EntryOutside(e) ==
  \E t \in Idx(e.mem.tiers) : LET T == e.mem.tiers[t] IN
     \E i \in Idx(T.ents) : IF T.kind = "I" THEN V(T.ents[i].s) < FileLo(e) \/ V(T.ents[i].e) > FileHi(e)
                                            ELSE V(T.ents[i].t) < FileLo(e) \/ V(T.ents[i].t) > FileHi(e)

TierWritten(e, d, T, D) ==
  \* does tier D of decoded document d render memory tier T under the save options?
  LET blanks == e.args.blanks /\ T.kind = "I"
      m == T.ents
  IN /\ D.kind = T.kind /\ D.name = T.name
     \* tier-level span: the in-memory one or the file's (json: always the file's)
     /\ (NumOK(e, T.lo, D.lo) \/ D.lo = d.lo)
     /\ (NumOK(e, T.hi, D.hi) \/ D.hi = d.hi)
     /\ IF ~blanks THEN EntsMatch(T.kind, m, D.ents)
        ELSE IF ~e.grid THEN FilledMatch(m, D.ents, d.lo, d.hi, TRUE)
        ELSE TRUE                                             \* grid mode: judged by the C04 clauses

FormatClauses(e, f) ==
  LET d == Decoded(e, f) IN
  [ wellformed |-> d.ok,
    span_is_file_span |-> d.ok => (NumOK(e, ReqLo(e), d.lo) /\ NumOK(e, ReqHi(e), d.hi)),
    tiers_names_types_order |-> d.ok => (Len(d.tiers) = Len(e.mem.tiers)
                                         /\ \A t \in Idx(e.mem.tiers) : t <= Len(d.tiers) =>
                                               (d.tiers[t].kind = e.mem.tiers[t].kind /\ d.tiers[t].name = e.mem.tiers[t].name)),
    content_equals_memory |-> (d.ok /\ Len(d.tiers) = Len(e.mem.tiers)) =>
                                 \A t \in Idx(e.mem.tiers) : TierWritten(e, d, e.mem.tiers[t], d.tiers[t]),
    interval_tiers_partition_file_span |-> (d.ok /\ e.args.blanks) =>
                                 \A t \in Idx(d.tiers) : d.tiers[t].kind = "I" => IsPartition(d.tiers[t].ents, d.lo, d.hi) ]

SameModuloJsonSpan(d1, d2) ==
  /\ d1.lo = d2.lo /\ d1.hi = d2.hi /\ Len(d1.tiers) = Len(d2.tiers)
  /\ \A t \in Idx(d1.tiers) : t <= Len(d2.tiers) =>
        (d1.tiers[t].kind = d2.tiers[t].kind /\ d1.tiers[t].name = d2.tiers[t].name /\ d1.tiers[t].ents = d2.tiers[t].ents)

\* does the in-memory document contain a value within 1e-14 of an integer?  The text writers may print the integer
\* while the JSON writers print the value itself (the allowance C01 states), so times are then compared per format only
NearIntNum(x) == x.alt # -1
HasNearInt(e) ==
  \/ NearIntNum(e.mem.lo) \/ NearIntNum(e.mem.hi) \/ (e.args.haslo /\ NearIntNum(e.args.lo)) \/ (e.args.hashi /\ NearIntNum(e.args.hi))
  \/ \E t \in Idx(e.mem.tiers) : LET T == e.mem.tiers[t] IN
        NearIntNum(T.lo) \/ NearIntNum(T.hi) \/
        \E i \in Idx(T.ents) : IF T.kind = "I" THEN NearIntNum(T.ents[i].s) \/ NearIntNum(T.ents[i].e) ELSE NearIntNum(T.ents[i].t)
Shape(d) == [t \in Idx(d.tiers) |-> [kind |-> d.tiers[t].kind, name |-> d.tiers[t].name,
                                      labels |-> [i \in Idx(d.tiers[t].ents) |-> d.tiers[t].ents[i].l]]]

SaveClausesC02(e) ==
  LET ok == e.st = "ok"
      per(f) == FormatClauses(e, f)
      bad == {<<f, k>> \in Formats \X {"wellformed", "span_is_file_span", "tiers_names_types_order", "content_equals_memory",
                                        "interval_tiers_partition_file_span"} : ok /\ ~per(f)[k]}
  IN { "C02_" \o x[1] \o "_" \o x[2] : x \in bad }
     \cup (IF ok /\ (\A f \in Formats : Decoded(e, f).ok)
              /\ ~(\A f \in Formats : IF HasNearInt(e) THEN Shape(Decoded(e, "short")) = Shape(Decoded(e, f))
                                       ELSE SameModuloJsonSpan(Decoded(e, "short"), Decoded(e, f)))
           THEN {"C02_four_formats_decode_to_identical_content"} ELSE {})
     \cup (IF ok /\ Decoded(e, "short").ok /\ Decoded(e, "long").ok /\ Decoded(e, "tgjson").ok
              /\ ~(Decoded(e, "short") = Decoded(e, "long") /\ (HasNearInt(e) \/ Decoded(e, "short") = Decoded(e, "tgjson")))
           THEN {"C02_text_and_textgrid_json_identical_including_tier_spans"} ELSE {})
     \* a save that raises produces no file: whatever it leaves at a fresh destination (an empty or half-written file) is
     \* not a well-formed document (e.left: recorded by the harness for raising saves)
     \cup (IF ~ok /\ "left" \in DOMAIN e /\ e.left = "file" THEN {"C02_raising_save_leaves_no_file_behind"} ELSE {})

SaveClausesC04(e) ==
  LET ok == e.st = "ok"
      lo == FileLo(e)  hi == FileHi(e)
      outside == EntryOutside(e)
      tierFails(f) ==
        LET d == Decoded(e, f) IN
        IF ~(d.ok /\ Len(d.tiers) = Len(e.mem.tiers)) THEN {"C04_file_not_decodable"}
        ELSE UNION { LET T == e.mem.tiers[t]  w == d.tiers[t].ents  es == PlainEnts(T) IN
                     IF T.kind # "I" \/ d.tiers[t].kind # "I" THEN {}
                     ELSE IF ~e.args.blanks THEN (IF w = es THEN {} ELSE {"C04_blanks_off_entries_verbatim"})
                     ELSE IF e.args.useT THEN FailsOf(PrepClauses(es, lo, hi, w, e.args.T2))
                     ELSE FailsOf(PrepClausesNoT(es, lo, hi, w))
                   : t \in Idx(e.mem.tiers) }
                 \cup (IF d.lo = lo /\ d.hi = hi THEN {} ELSE {"C04_override_becomes_file_span"})
  IN (IF e.args.blanks /\ outside /\ ok THEN {"C04_raises_when_entry_outside_requested_span"} ELSE {})
     \cup (IF ~outside /\ ~ok THEN {"C04_saves_when_entries_inside_requested_span"} ELSE {})
     \* "raises instead of writing an inconsistent file": nothing is left at a fresh destination
     \cup (IF ~ok /\ "left" \in DOMAIN e /\ e.left = "file" THEN {"C04_raising_save_writes_no_file"} ELSE {})
     \cup (IF ok /\ ~(~e.args.blanks /\ outside) THEN UNION { tierFails(f) : f \in Formats } ELSE {})

(* ---------------- "open" events (C03) --------------------------------------------------------- *)
(* e = [doc (Content form: numbers are ids), layout, args: [inclEmpty, dup], st, pe, res]           *)
NameSeq(d) == [t \in Idx(d.tiers) |-> d.tiers[t].name]
HasDup(names) == \E i, j \in Idx(names) : i # j /\ names[i] = names[j]
Uniq(names) == ~HasDup(names)
\* praatio strips surrounding white space from every label it reads (C05: labels carry none); an entry counts as
\* empty-labelled when nothing is left
IsWSc(c) == c[1] \in {"NL", "SP"}
RECURSIVE TrimL(_)
TrimL(l) == IF l # <<>> /\ IsWSc(l[1]) THEN TrimL(Tail(l)) ELSE l
RECURSIVE TrimR(_)
TrimR(l) == IF l # <<>> /\ IsWSc(l[Len(l)]) THEN TrimR(SubSeq(l, 1, Len(l) - 1)) ELSE l
TrimWS(l) == TrimR(TrimL(l))
TrimEnts(ents) == [i \in Idx(ents) |-> [ents[i] EXCEPT !.l = TrimWS(@)]]
KeepEnts(ents, inclEmpty) == IF inclEmpty THEN TrimEnts(ents) ELSE SelectSeq(TrimEnts(ents), LAMBDA x : x.l # <<>>)
KeepEntsAlt(ents, inclEmpty) == IF inclEmpty THEN TrimEnts(ents) ELSE TrimEnts(SelectSeq(ents, LAMBDA x : x.l # <<>>))

(* "agree" events: the results of opening the short, long and ELAN-long encodings (any spelling of the numbers)   *)
(* of one document with the same options                                                                         *)
AgreeClauses(e) ==
  [ C03_long_and_short_encodings_open_to_equal_textgrids |->
        \A i, j \in Idx(e.results) : (e.results[i].st = "ok" /\ e.results[j].st = "ok") => e.results[i].res = e.results[j].res ]

OpenClauses(e) ==
  LET doc == e.doc  res == e.res  ok == e.st = "ok"
      dup == HasDup(NameSeq(doc))
      isJson == e.layout = "json"
      firstOcc(t) == \A u \in 1..(t - 1) : doc.tiers[u].name # doc.tiers[t].name
      tierOK(t) == LET T == doc.tiers[t]  R == res.tiers[t] IN
                   /\ R.kind = T.kind
                   /\ R.lo = (IF isJson THEN doc.lo ELSE T.lo) /\ R.hi = (IF isJson THEN doc.hi ELSE T.hi)
                   \* a label of white space only: omitted as empty, or kept with the (trimmed, hence empty) label
                   /\ (R.ents = KeepEnts(T.ents, e.args.inclEmpty) \/ R.ents = KeepEntsAlt(T.ents, e.args.inclEmpty))
  IN [ C03_duplicate_names_raise_when_selected |-> (dup /\ e.args.dup = "error") => e.st = "DuplicateTierName",
       C03_opens_conformant_file |-> ~(dup /\ e.args.dup = "error") => ok,
       C03_span |-> ok => (res.lo = doc.lo /\ res.hi = doc.hi),
       C03_tier_count_and_order |-> ok => Len(res.tiers) = Len(doc.tiers),
       C03_tiers_spans_times_labels |-> (ok /\ Len(res.tiers) = Len(doc.tiers)) => \A t \in Idx(doc.tiers) : tierOK(t),
       C03_names |-> (ok /\ Len(res.tiers) = Len(doc.tiers) /\ ~dup) => NameSeq(res) = NameSeq(doc),
       C03_duplicates_renamed_to_unique_names_in_file_order |-> (ok /\ Len(res.tiers) = Len(doc.tiers) /\ dup) =>
            \* processed in file order: a tier keeps its name unless an earlier tier already carries it (as read or as renamed)
            (Uniq(NameSeq(res)) /\ \A t \in Idx(doc.tiers) :
                 (\A u \in 1..(t - 1) : res.tiers[u].name # doc.tiers[t].name) => res.tiers[t].name = doc.tiers[t].name) ]

(* ---------------- "roundtrip" events (C01) ------------------------------------------------------ *)
(* e = [mem, fmt, args: [blanks, inclEmpty], st1, st2, st3, res, sametext]                            *)
RoundTripClauses(e) ==
  LET mem == e.mem  res == e.res
      ok == e.st1 = "ok" /\ e.st2 = "ok"
      isJson == e.fmt = "json"
      sameShape == ok /\ Len(res.tiers) = Len(mem.tiers)
      emptyPoints == \E t \in Idx(mem.tiers) : mem.tiers[t].kind = "P" /\ \E i \in Idx(mem.tiers[t].ents) : mem.tiers[t].ents[i].l = <<>>
      emptyIntervals == \E t \in Idx(mem.tiers) : mem.tiers[t].kind = "I" /\ \E i \in Idx(mem.tiers[t].ents) : mem.tiers[t].ents[i].l = <<>>
      expectEnts(T, R) ==
        \* what must come back for memory tier T
        IF T.kind = "I" /\ e.args.blanks /\ e.args.inclEmpty
        THEN FilledMatch(T.ents, R.ents, res.lo, res.hi, TRUE)
        ELSE LET keep == IF e.args.inclEmpty THEN T.ents ELSE SelectSeq(T.ents, LAMBDA x : x.l # <<>>)
             IN EntsMatch(T.kind, keep, R.ents)
  IN [ C01_save_and_open_succeed |-> ok,
       C01_textgrid_span |-> ok => (M(mem.lo, res.lo) /\ M(mem.hi, res.hi)),
       C01_tier_names_order_types |-> ok => (sameShape /\ \A t \in Idx(mem.tiers) :
                                               res.tiers[t].name = mem.tiers[t].name /\ res.tiers[t].kind = mem.tiers[t].kind),
       C01_tier_spans |-> sameShape => \A t \in Idx(mem.tiers) :
                             IF isJson THEN (res.tiers[t].lo = res.lo /\ res.tiers[t].hi = res.hi)
                             ELSE \/ (M(mem.tiers[t].lo, res.tiers[t].lo) /\ M(mem.tiers[t].hi, res.tiers[t].hi))
                                  \* blank filling extends an interval tier to the file's span (that is its documented purpose);
                                  \* the tier is then written, and read back, with that span
                                  \/ (e.args.blanks /\ mem.tiers[t].kind = "I"
                                      /\ res.tiers[t].lo = res.lo /\ res.tiers[t].hi = res.hi),
       C01_entries_times_bit_identical_labels_identical |-> sameShape => \A t \in Idx(mem.tiers) : expectEnts(mem.tiers[t], res.tiers[t]),
       \* empty-labelled entries of the original that the caller asked the reader to leave out (includeEmptyIntervals =
       \* False) cannot be reproduced by the second save (blanks added by the first save can: they are filled in again)
       C01_resave_is_fixed_point |-> (ok /\ (e.args.inclEmpty \/ (~emptyPoints /\ ~emptyIntervals))) =>
                                        (e.st3 = "ok" /\ e.sametext) ]
=============================================================================
