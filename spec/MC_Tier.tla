------------------------------ MODULE MC_Tier ------------------------------
(***************************************************************************)
(* The tier state machine over a bounded universe.                         *)
(*                                                                         *)
(* State: recv (the receiver tier), arg (second operand), out (the last    *)
(* call as an event record, the same shape the trace specification reads). *)
(* Init ranges over the WHOLE universe of well-formed tiers, so one step   *)
(* checks every operation on every well-formed state; Adopt continues a    *)
(* history with the returned tier so deeper levels reach tiers the         *)
(* universe does not contain (grown spans, merged labels).                 *)
(*                                                                         *)
(* Every transition computes the result with TierImpl (the code-shaped     *)
(* transcription) and the invariant NoFail judges it with TierProp (the    *)
(* property statements): TLC proves Impl => Prop within the bounds.  With  *)
(* Emit = TRUE every event is also printed as JSON: these are the vectors  *)
(* replayed into the real code.                                            *)
(***************************************************************************)
EXTENDS TierImpl, TLC, Json

CONSTANTS N,          \* grid 0..N
          K,          \* at most K entries per tier
          Ops,        \* enabled operations
          Kinds,      \* subset of {"I","P"}
          Depth,      \* history depth (1 = every op on every universe state)
          OneSpan,    \* TRUE: every tier spans [0, N] (set operations: the span plays no role); FALSE: all span variants
          Slice, NSlices,   \* this process handles universe members i with i % NSlices = Slice
          Emit        \* print every event as JSON

P == INSTANCE TierProp

VARIABLES recv, arg, out
vars == <<recv, arg, out>>

GridT == 0..N
LabelsU == {"a", "b"}

RECURSIVE Geo(_, _)
Geo(from, k) ==
  IF k = 0 THEN {<<>>}
  ELSE {<<>>} \cup UNION { UNION { { <<[s |-> s, e |-> e]>> \o rest : rest \in Geo(e, k - 1) } : e \in (s + 1)..N } : s \in from..(N - 1) }

LabelledI(g) == { [i \in Idx(g) |-> Iv(g[i].s, g[i].e, f[i])] : f \in [Idx(g) -> LabelsU] }
FirstS(es) == IF es = <<>> THEN N ELSE es[1].s
LastE(es) == IF es = <<>> THEN 0 ELSE es[Len(es)].e
SpansI(es) == IF OneSpan THEN {<<0, N>>} ELSE { <<lo, hi>> \in {0, 1} \X {N - 1, N} : lo <= FirstS(es) /\ hi >= LastE(es) /\ lo < hi }
TiersI == UNION { UNION { { MkTier("I", "t", sp[1], sp[2], es) : sp \in SpansI(es) } : es \in LabelledI(g) } : g \in Geo(0, K) }

RECURSIVE GeoP(_, _)
GeoP(from, k) ==
  IF k = 0 THEN {<<>>}
  ELSE {<<>>} \cup UNION { { <<[t |-> t]>> \o rest : rest \in GeoP(t + 1, k - 1) } : t \in from..N }
LabelledP(g) == { [i \in Idx(g) |-> Pt(g[i].t, f[i])] : f \in [Idx(g) -> LabelsU] }
FirstT(ps) == IF ps = <<>> THEN N ELSE ps[1].t
LastT(ps) == IF ps = <<>> THEN 0 ELSE ps[Len(ps)].t
SpansP(ps) == IF OneSpan THEN {<<0, N>>} ELSE { <<lo, hi>> \in {0, 1} \X {N - 1, N} : lo <= FirstT(ps) /\ hi >= LastT(ps) /\ lo < hi }
TiersP == UNION { UNION { { MkTier("P", "t", sp[1], sp[2], ps) : sp \in SpansP(ps) } : ps \in LabelledP(g) } : g \in GeoP(0, K) }

Universe == (IF "I" \in Kinds THEN TiersI ELSE {}) \cup (IF "P" \in Kinds THEN TiersP ELSE {})
USeq == SetToSeq(Universe)
MySlice == { USeq[i] : i \in { j \in 1..Len(USeq) : j % NSlices = Slice } }

BinaryOps == {"appendTier", "union", "difference", "intersection", "mergeLabels", "dejitter", "morph"}
NeedArg == Ops \cap BinaryOps # {}

NoCall == [op |-> "none"]

Ev(op, args, t, a, r) ==
  [op |-> op, args |-> args, pre |-> t, arg |-> a, st |-> r.st,
   pe |-> r.st \in {"ArgumentError", "CollisionError", "OutOfBounds", "TextgridStateError", "SafeZipException", "WrongOption"},
   ret |-> r.ret, post |-> r.post, argpost |-> a, out |-> r.out, alias |-> FALSE, arith |-> TRUE, exactfp |-> TRUE]

Init == /\ recv \in MySlice
        /\ arg \in (IF NeedArg THEN Universe \cup {NoTier} ELSE {NoTier})
        /\ out = NoCall

Call(op, args, r) == /\ out' = Ev(op, args, recv, arg, r)
                     /\ recv' = r.post
                     /\ arg' = arg

CropModes == {"strict", "lax", "truncated"}
EraseModes == {"truncate", "categorical", "error"}
SpaceModes == {"stretch", "split", "no_change", "error"}
Reporting == {"silence", "warning", "error"}
CollModes == {"error", "replace", "merge"}

\* windows inside, at the edges of and reaching one unit beyond the grid on either side
DoCrop == "crop" \in Ops /\ \E a \in (-1)..(N + 1), b \in (-1)..(N + 1), m \in (IF recv.kind = "I" THEN CropModes ELSE {"lax"}), z \in BOOLEAN :
             Call("crop", [a |-> a, b |-> b, mode |-> m, rebase |-> z], Crop(recv, a, b, m, z))
\* regions inside the span (the property's quantifier), plus degenerate ones
DoErase == "eraseRegion" \in Ops /\ \E a \in recv.lo..recv.hi, b \in recv.lo..recv.hi,
                                      m \in (IF recv.kind = "I" THEN EraseModes ELSE {"truncate"}), z \in BOOLEAN :
             Call("eraseRegion", [a |-> a, b |-> b, mode |-> m, shrink |-> z], Erase(recv, a, b, m, z))
DoSpace == "insertSpace" \in Ops /\ \E s \in recv.lo..recv.hi, d \in 1..2, m \in (IF recv.kind = "I" THEN SpaceModes ELSE {"error"}) :
             Call("insertSpace", [s |-> s, d |-> d, mode |-> m], InsertSpace(recv, s, d, m))
DoSpaceErase == "spaceErase" \in Ops /\ recv.kind = "I" /\ \E s \in recv.lo..recv.hi, d \in 1..2, m \in {"stretch", "split"} :
             LET r1 == InsertSpace(recv, s, d, m)
                 r2 == IF r1.st = "ok" THEN Erase(r1.ret, s, s + d, "truncate", TRUE) ELSE r1
             IN Call("spaceErase", [s |-> s, d |-> d, mode |-> m], [r2 EXCEPT !.post = recv])
DoEdit == "editTimestamps" \in Ops /\ \E o \in (-(N + 1))..3, m \in Reporting :
             Call("editTimestamps", [o |-> o, mode |-> m], Edit(recv, o, m))
DoEditRT == "editRoundTrip" \in Ops /\ \E o \in 1..3 :
             LET r1 == Edit(recv, o, "silence")
                 r2 == IF r1.st = "ok" THEN Edit(r1.ret, -o, "silence") ELSE r1
             IN Call("editRoundTrip", [o |-> o], [r2 EXCEPT !.post = recv])
EntriesI == { Iv(s, e, l) : s \in 0..(N + 1), e \in 0..(N + 1), l \in {"x"} }
EntriesP == { Pt(t, l) : t \in 0..(N + 1), l \in {"x"} }
\* candidates: every fresh entry on the grid, and every entry the tier already holds (the same entry inserted twice);
\* reporting modes: the two documented ones and an invalid value (rejected before anything changes)
DoInsert == "insertEntry" \in Ops /\ \E x \in (IF recv.kind = "I" THEN {y \in EntriesI : y.s <= y.e} ELSE EntriesP) \cup SeqToSet(recv.ents),
                                          cm \in CollModes, rm \in {"silence", "warning", "bogus"} :
             Call("insertEntry", [x |-> x, cmode |-> cm, rmode |-> rm], InsertEntry(recv, x, cm, rm))
DoDelete == "deleteEntry" \in Ops /\
            \/ \E i \in Idx(recv.ents) : Call("deleteEntry", [x |-> recv.ents[i]], DeleteEntry(recv, recv.ents[i]))
            \/ LET x == IF recv.kind = "I" THEN Iv(0, 1, "zz") ELSE Pt(0, "zz") IN Call("deleteEntry", [x |-> x], DeleteEntry(recv, x))
DoAppend == "appendTier" \in Ops /\ Call("appendTier", [k |-> 0], AppendTier(recv, arg))
DoUnion == "union" \in Ops /\ recv.kind = arg.kind /\ Call("union", [k |-> 0], Union(recv, arg))
DoDiff == "difference" \in Ops /\ recv.kind = "I" /\ arg.kind = "I" /\ Call("difference", [k |-> 0], Difference(recv, arg))
DoInter == "intersection" \in Ops /\ recv.kind = "I" /\ arg.kind = "I" /\ Call("intersection", [k |-> 0], Intersection(recv, arg))
DoMergeL == "mergeLabels" \in Ops /\ recv.kind = "I" /\ arg.kind = "I" /\ Call("mergeLabels", [k |-> 0], MergeLabels(recv, arg))
DoDejitter == "dejitter" \in Ops /\ \E D \in 1..2 : Call("dejitter", [D |-> D], Dejitter(recv, arg, D))
Filters == {"all", "none", "a"}
DoMorph == "morph" \in Ops /\ recv.kind = "I" /\ arg.kind = "I" /\ \E f \in Filters :
             Call("morph", [filter |-> f],
                  Morph(recv, arg, LAMBDA l : CASE f = "all" -> TRUE [] f = "none" -> FALSE [] OTHER -> l = f))
DoNew == "new" \in Ops /\ Call("new", [k |-> 0], New(recv))
\* constructors: the receiver's entries handed over in reverse order, with an overlapping duplicate, with a degenerate entry
RawLists == IF recv.kind = "I"
            THEN {recv.ents, Reverse(recv.ents)}
                 \cup (IF recv.ents = <<>> THEN {} ELSE {Append(recv.ents, [recv.ents[1] EXCEPT !.e = @ + 1]),
                                                        <<Iv(recv.ents[1].e, recv.ents[1].e, "x")>> \o recv.ents,
                                                        Append(recv.ents, Iv(recv.ents[1].s + 1, recv.ents[1].s, "x"))})
            ELSE {recv.ents, Reverse(recv.ents)}
DoConstruct == "construct" \in Ops /\ \E raw \in RawLists, lo \in {recv.lo, 0}, hi \in {recv.hi, N + 1}, pad \in BOOLEAN :
             LET c == ConsK(recv.kind, "t", raw, lo, hi)
             IN Call("construct", [kind |-> recv.kind, raw |-> raw, lo |-> lo, hi |-> hi, pad |-> pad],
                     [st |-> c.st, ret |-> IF c.st = "ok" THEN c.tier ELSE NoTier, post |-> recv, out |-> FALSE])
\* continue the history with the tier the last call returned
Adopt == Depth > 1 /\ out.op # "none" /\ out.st = "ok" /\ IsTier(out.ret) /\ out.ret # recv
         /\ recv' = out.ret /\ arg' = arg /\ out' = NoCall

\* after a mutator (or a call that returned nothing new) the history simply goes on with the receiver as it is
Continue == Depth > 1 /\ out.op # "none" /\ ~(out.st = "ok" /\ IsTier(out.ret) /\ out.ret # recv)
            /\ recv' = recv /\ arg' = arg /\ out' = NoCall

\* a call is made from a quiescent state (out = NoCall); Adopt/Continue return to one
\* unary operations are explored with arg = NoTier only, binary ones with every second operand
DoCall == \/ arg = NoTier /\ (DoCrop \/ DoErase \/ DoSpace \/ DoSpaceErase \/ DoEdit \/ DoEditRT \/ DoInsert \/ DoDelete \/ DoNew \/ DoConstruct)
          \/ IsTier(arg) /\ (DoAppend \/ DoUnion \/ DoDiff \/ DoInter \/ DoMergeL \/ DoDejitter \/ DoMorph)
Next == (out.op = "none" /\ DoCall) \/ Adopt \/ Continue

Spec == Init /\ [][Next]_vars

(* ---------------- what TLC checks ----------------------------------------- *)
FailSet == IF out.op = "none" THEN {} ELSE P!Fails(out)
NoFail == IF FailSet = {} THEN TRUE ELSE PrintT(<<"FAILS", FailSet, out>>) /\ FALSE
\* C05 at design level: the receiver is well-formed in every reachable state
RecvWF == WFTier(recv)
\* C13 as an action property: a copy-returning call never changes the receiver, a failed mutator neither
CopyOpsPure == [][out'.op # "none" /\ P!IsCopyOp(out'.op) => recv' = recv]_vars
FailedMutatorNoChange == [][out'.op # "none" /\ out'.st # "ok" => recv' = recv]_vars
ArgNeverChanges == [][arg' = arg]_vars

EmitInv == IF Emit /\ out.op # "none" THEN PrintT(ToJson(out)) ELSE TRUE
Bound == TLCGet("level") <= 2 * Depth
=============================================================================
