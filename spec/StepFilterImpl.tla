--------------------------- MODULE StepFilterImpl ---------------------------
(***************************************************************************)
(* my_math._stepFilter transcribed: for element x (0-based) the window is  *)
(* preContext + [dist[x]] + postContext with the index bookkeeping of the  *)
(* code (window offset, lastKnownLargeIndex, clamping at both edges); the  *)
(* filter function is applied to the window when edge padding is on or the *)
(* window lies inside the series, otherwise the value is passed through.   *)
(* Shared by MC_Series (median, C20) and MC_SeriesExt (windowed z-score).  *)
(***************************************************************************)
EXTENDS Integers, Sequences, SequencesExt

RECURSIVE PostCtx(_, _, _, _, _, _)
PostCtx(d, x, y, o, lastKnown, acc) ==
  IF y > o THEN acc
  ELSE IF x + y >= Len(d) THEN PostCtx(d, x, y + 1, o, lastKnown, Append(acc, d[(IF lastKnown = 0 THEN x ELSE lastKnown) + 1]))
       ELSE PostCtx(d, x, y + 1, o, x + y, Append(acc, d[x + y + 1]))
PreCtx(d, x, o) == [k \in 1..o |-> LET y == o - k + 1 IN d[(IF x - y < 0 THEN 0 ELSE x - y) + 1]]
WindowOf(d, x, o) == PreCtx(d, x, o) \o <<d[x + 1]>> \o PostCtx(d, x, 1, o, 0, <<>>)
Applies(d, x, o, pad) == pad \/ (0 <= x - o /\ x + o < Len(d))
\* f: window -> value; g: the value passed through where the filter does not apply
StepFilter(f(_), g(_), d, window, pad) ==
  LET o == window \div 2 IN
  [i \in 1..Len(d) |-> IF Applies(d, i - 1, o, pad) THEN f(WindowOf(d, i - 1, o)) ELSE g(d[i])]
=============================================================================
