------------------------------- MODULE Grid -------------------------------
(***************************************************************************)
(* Integer time, entries, and small list helpers shared by every family.   *)
(*                                                                         *)
(* Time is an integer: a grid coordinate in the bounded models, a scaled   *)
(* decimal (units of 1/1000 s, 1/8 s, ...) in recorded traces.  An         *)
(* interval entry is [s, e, l]; a point entry is [t, l].  A tier is        *)
(* [kind, name, lo, hi, ents] with kind "I" or "P"; [kind |-> "none"] is   *)
(* the absent tier.                                                        *)
(***************************************************************************)
EXTENDS Integers, Sequences, FiniteSets, SequencesExt, FiniteSetsExt, Functions

NoTier == [kind |-> "none"]
IsTier(x) == x.kind \in {"I", "P"}

Iv(s, e, l) == [s |-> s, e |-> e, l |-> l]
Pt(t, l) == [t |-> t, l |-> l]
MkTier(kind, name, lo, hi, ents) == [kind |-> kind, name |-> name, lo |-> lo, hi |-> hi, ents |-> ents]

MinOf(S) == CHOOSE x \in S : \A y \in S : x <= y
MaxOf(S) == CHOOSE x \in S : \A y \in S : x >= y
Min2(a, b) == IF a <= b THEN a ELSE b
Max2(a, b) == IF a >= b THEN a ELSE b
AbsV(x) == IF x < 0 THEN -x ELSE x

Idx(s) == 1..Len(s)
MapSeq(f(_), s) == [i \in Idx(s) |-> f(s[i])]
Concat(ss) == FlattenSeq(ss)
SeqToSet(s) == {s[i] : i \in Idx(s)}

(* python list.insert(idx, x) *)
PyInsert(s, idx, x) ==
  LET n == Len(s)
      i == IF idx < 0 THEN (IF n + idx < 0 THEN 0 ELSE n + idx) ELSE (IF idx > n THEN n ELSE idx)
  IN SubSeq(s, 1, i) \o <<x>> \o SubSeq(s, i + 1, n)

(* Positive-length overlap of two intervals / of an interval with a window *)
Overlaps(x, a, b) == x.s < b /\ x.e > a

(* Sorting.  python sorts Interval tuples lexicographically (start, end,   *)
(* label); only (start, end) matter for well-formed tiers.                 *)
IvLess(x, y) == x.s < y.s \/ (x.s = y.s /\ x.e < y.e)
SortIv(es) == SortSeq(es, IvLess)
PtLess(x, y) == x.t < y.t
SortPt(ps) == SortSeq(ps, PtLess)

(* --- the label-at-time function (the denotation of an interval tier) --- *)
LabelAt(es, t) ==
  LET hit == {i \in Idx(es) : es[i].s <= t /\ t < es[i].e}
  IN IF hit = {} THEN "" ELSE es[CHOOSE i \in hit : TRUE].l
Covered(es, t) == \E i \in Idx(es) : es[i].s <= t /\ t < es[i].e

(* All boundary times of an entry list: between two consecutive boundaries *)
(* of all the lists involved, every LabelAt is constant, so it is enough   *)
(* to probe at the boundaries themselves.                                  *)
Bounds(es) == {es[i].s : i \in Idx(es)} \cup {es[i].e : i \in Idx(es)}
Times(ps) == {ps[i].t : i \in Idx(ps)}

(* Well-formedness *)
WFI(es, lo, hi) ==
  /\ \A i \in Idx(es) : es[i].s < es[i].e /\ lo <= es[i].s /\ es[i].e <= hi
  /\ \A i \in 1..(Len(es) - 1) : es[i].e <= es[i + 1].s
WFP(ps, lo, hi) ==
  /\ \A i \in Idx(ps) : lo <= ps[i].t /\ ps[i].t <= hi
  /\ \A i \in 1..(Len(ps) - 1) : ps[i].t <= ps[i + 1].t
WFTier(t) == /\ t.lo <= t.hi
             /\ IF t.kind = "I" THEN WFI(t.ents, t.lo, t.hi) ELSE WFP(t.ents, t.lo, t.hi)

Shift(es, d) == [i \in Idx(es) |-> [es[i] EXCEPT !.s = @ + d, !.e = @ + d]]
ShiftP(ps, d) == [i \in Idx(ps) |-> [ps[i] EXCEPT !.t = @ + d]]
=============================================================================
