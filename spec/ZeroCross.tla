----------------------------- MODULE ZeroCross -----------------------------
(***************************************************************************)
(* findNearestZeroCrossing as an explicit loop machine (audio.py,          *)
(* AbstractWav.findNearestZeroCrossing / _iterZeroCrossings /              *)
(* _findNextZeroCrossing / utils.getInterval / utils.chooseClosestTime),   *)
(* in sample units, targets on sample positions, step S >= 2 samples.      *)
(* TLC checks over every sample sequence of the universe: the search       *)
(* terminates (no cycle; Termination under weak fairness), and a returned  *)
(* position is in range and a genuine crossing.                            *)
(***************************************************************************)
EXTENDS ZeroCrossProp, TLC, Json

CONSTANTS MaxLen, VMax, Steps, Emit
Values == (-VMax)..VMax

VARIABLES samples, target, step, left, right, pc, result
vars == <<samples, target, step, left, right, pc, result>>
N == Len(samples)

\* first / last index (1-based) of a value in a window, or 0
FirstOf(w, P(_)) == IF \E i \in 1..Len(w) : P(i) THEN CHOOSE i \in 1..Len(w) : P(i) /\ \A j \in 1..(i - 1) : ~P(j) ELSE 0
LastOf(w, P(_)) == IF \E i \in 1..Len(w) : P(i) THEN CHOOSE i \in 1..Len(w) : P(i) /\ \A j \in (i + 1)..Len(w) : ~P(j) ELSE 0
AbsZ(x) == IF x < 0 THEN -x ELSE x

\* _findNextZeroCrossing on window w starting at sample position start (0-based); returns position or -1
NextCrossing(w, start, reverse) ==
  LET z == IF reverse THEN LastOf(w, LAMBDA i : w[i] = 0) ELSE FirstOf(w, LAMBDA i : w[i] = 0)
      isChange(i) == i < Len(w) /\ SignOf(w[i]) # SignOf(w[i + 1])
      c == IF reverse THEN LastOf(w, isChange) ELSE FirstOf(w, isChange)
  IN IF z # 0 THEN start + z - 1
     ELSE IF c = 0 THEN -1
     ELSE IF AbsZ(w[c]) > AbsZ(w[c + 1]) THEN start + c ELSE start + c - 1

\* utils.getInterval + getSamples: the window as (start, samples)
Window(from, len, reverse) ==
  LET s0 == IF reverse THEN from - len ELSE from
      e0 == IF reverse THEN from ELSE from + len
      s1 == IF s0 < 0 THEN 0 ELSE s0
      e1 == IF s0 < 0 THEN e0 ELSE IF e0 > N THEN N ELSE e0
      e2 == IF e1 > N THEN N ELSE e1
  IN [start |-> s1, w |-> IF e2 <= s1 THEN <<>> ELSE SubSeq(samples, s1 + 1, e2)]

IterLeft == IF left > 0 THEN LET win == Window(left, step + 1, TRUE) IN NextCrossing(win.w, win.start, TRUE) ELSE -1
IterRight == IF right + step < N THEN LET win == Window(right, step + 1, FALSE) IN NextCrossing(win.w, win.start, FALSE) ELSE -1
Closest(a, b) == IF a = -1 THEN b ELSE IF b = -1 THEN a ELSE IF AbsZ(a - target) <= AbsZ(b - target) THEN a ELSE b

RECURSIVE Seqs(_)
Seqs(n) == IF n = 0 THEN {<<>>} ELSE { Append(s, v) : s \in Seqs(n - 1), v \in Values }

Init == /\ samples \in UNION { Seqs(n) : n \in 1..MaxLen }
        /\ target \in 0..Len(samples)
        /\ step \in Steps
        /\ left = target /\ right = target
        /\ pc = "loop" /\ result = -1

Iterate == /\ pc = "loop"
           /\ LET l == IterLeft  r == IterRight IN
              IF l # -1 \/ r # -1 THEN pc' = "done" /\ result' = Closest(l, r) /\ UNCHANGED <<left, right>>
              ELSE IF left < 0 /\ right > N THEN pc' = "error" /\ UNCHANGED <<left, right, result>>
              ELSE left' = left - step /\ right' = right + step /\ UNCHANGED <<pc, result>>
           /\ UNCHANGED <<samples, target, step>>
Next == Iterate
Spec == Init /\ [][Next]_vars /\ WF_vars(Next)

\* every finished search is printed: (recording, target, step, outcome) are the vectors replayed into the real code
EmitInv == IF Emit /\ pc # "loop" THEN PrintT(ToJson([samples |-> samples, target |-> target, step |-> step, pc |-> pc, result |-> result])) ELSE TRUE
ResultOK == pc = "done" => (result >= 0 /\ result <= N /\ Genuine(samples, result))
Termination == <>(pc # "loop")
\* the search positions only ever move outward, by whole steps: a variant that makes non-termination impossible
Progress == [][pc = "loop" /\ pc' = "loop" => (left' < left /\ right' > right)]_vars
=============================================================================
