------------------------------ MODULE TgProp ------------------------------
(***************************************************************************)
(* Property layer for Textgrid-level calls (C12, and the Textgrid clauses  *)
(* of C06-C10, C13).  Event record:                                        *)
(*  e = [op, args, pre, argt, argtg, st, pe, ret, rett, post, argtpost,    *)
(*       argtgpost, out, each, valid, alias, arith, exactfp]               *)
(* pre/post: receiver textgrid before/after; argt/argtg: tier / textgrid   *)
(* argument; ret: returned textgrid (NoTg if none); rett: returned tier;   *)
(* each: for tier-wise operations, the result [st, ret] of the SAME        *)
(* operation applied to each tier of the receiver on its own (computed by  *)
(* TierImpl in the bounded model, by the real tier method in traces);      *)
(* valid: ret.validate() as reported by the code; alias: the returned      *)
(* textgrid shares a tier object with the receiver.                        *)
(***************************************************************************)
EXTENDS TgImpl

OkE(e) == e.st = "ok"
RetTg(e) == OkE(e) /\ IsTg(e.ret)
FailsOf(r) == {k \in DOMAIN r : ~r[k]}
A2(e) == e.arith
CountOf2(sq, x) == Cardinality({i \in Idx(sq) : sq[i] = x})
SameBag2(s1, s2) == Len(s1) = Len(s2) /\ \A i \in Idx(s1) : CountOf2(s1, s1[i]) = CountOf2(s2, s1[i])

MinU(a, b) == IF a = Unset THEN b ELSE IF b = Unset THEN a ELSE Min2(a, b)
MaxU(a, b) == IF a = Unset THEN b ELSE IF b = Unset THEN a ELSE Max2(a, b)

(* the plain ordered-list model *)
ListInsert(names, idx, n) == IF idx = 99 THEN Append(names, n) ELSE PyInsert(names, idx - 0, n)
SameMapExcept(pre, post, n) == \A i \in Idx(post.tiers) : post.tiers[i].name # n =>
                                  (HasName(pre, post.tiers[i].name) /\ TierNamed(pre, post.tiers[i].name) = post.tiers[i])
UniqueNames(tg) == \A i, j \in Idx(tg.tiers) : i # j => tg.tiers[i].name # tg.tiers[j].name

MutClauses(e) ==
  [ C13_failed_mutator_unchanged |-> (~OkE(e)) => e.post = e.pre,
    C13_argument_unchanged |-> e.argtpost = e.argt /\ e.argtgpost = e.argtg,
    C12_names_unique |-> UniqueNames(e.post),
    \* a call the list model refuses is a no-op of the list model: same names, same order, same span
    C12_refused_call_keeps_names_order_and_span |-> (~OkE(e)) =>
        (Names(e.post) = Names(e.pre) /\ e.post.lo = e.pre.lo /\ e.post.hi = e.pre.hi) ]
CopyClauses(e) ==
  [ C13_receiver_unchanged |-> e.post = e.pre,
    C13_argument_unchanged |-> e.argtpost = e.argt /\ e.argtgpost = e.argtg,
    \* new() returns an independent copy: it holds none of the receiver's tier objects and shares no entry list with them
    \* (e.alias: identity of tier objects, and a probing edit of the copy's tiers that must not show in the receiver).  The other
    \* Textgrid-level operations are not held to this: the unchanged code itself passes tier objects through (empty tiers in
    \* editTimestamps, the preserved tiers of mergeTiers), which no sentence of C13 forbids.
    C13_result_shares_nothing_with_the_operands |-> (e.op = "newTg") => ~e.alias ]

AddClauses(e) ==
  LET t == e.argt  idx == e.args.idx  mode == e.args.mode  pre == e.pre  post == e.post
      dup == HasName(pre, t.name)
      widens == Widens(pre, t)
      badopt == mode \notin {"silence", "warning", "error"}
      mayRaise == (mode = "error" /\ widens) \/ badopt
  IN [ C12_duplicate_name_rejected |-> dup => ~OkE(e),            \* "is rejected": the statement names no exception class
       C13_invalid_option_value_rejected |-> badopt => ~OkE(e),
       C12_add_succeeds |-> (~dup /\ ~mayRaise) => OkE(e),
       C12_add_order_is_list_model |-> (~dup /\ OkE(e)) => Names(post) = ListInsert(Names(pre), idx, t.name),
       C12_add_maps_name_to_tier |-> (~dup /\ OkE(e)) => (HasName(post, t.name) /\ TierNamed(post, t.name) = t /\ SameMapExcept(pre, post, t.name)),
       C12_span_only_widens_to_cover |-> OkE(e) => (post.lo = MinU(pre.lo, t.lo) /\ post.hi = MaxU(pre.hi, t.hi)) ]

RemoveClauses(e) ==
  LET n == e.args.name  pre == e.pre  post == e.post
      present == HasName(pre, n)
  IN [ C12_remove_absent_raises |-> (~present) => ~OkE(e),
       C12_remove_order_is_list_model |-> present => (OkE(e) /\ Names(post) = SelectSeq(Names(pre), LAMBDA x : x # n)),
       C12_remove_keeps_other_tiers |-> (present /\ OkE(e)) => SameMapExcept(pre, post, n),
       C12_remove_returns_the_tier |-> (present /\ OkE(e)) => e.rett = TierNamed(pre, n),
       C12_span_only_widens_to_cover |-> (post.lo = pre.lo /\ post.hi = pre.hi) ]

RenameClauses(e) ==
  LET old == e.args.old  new == e.args.new  pre == e.pre  post == e.post
      present == HasName(pre, old)
      clash == present /\ new # old /\ HasName(pre, new)
  IN [ C12_rename_absent_raises |-> (~present) => ~OkE(e),
       C12_duplicate_name_rejected |-> clash => ~OkE(e),
       C12_rename_order_is_list_model |-> (present /\ ~clash) =>
            (OkE(e) /\ Names(post) = [i \in Idx(pre.tiers) |-> IF pre.tiers[i].name = old THEN new ELSE pre.tiers[i].name]),
       C12_rename_keeps_tier_content |-> (present /\ ~clash /\ OkE(e)) =>
            (HasName(post, new) /\ TierNamed(post, new) = [TierNamed(pre, old) EXCEPT !.name = new] /\ SameMapExcept(pre, post, new)),
       C12_span_only_widens_to_cover |-> (post.lo = pre.lo /\ post.hi = pre.hi) ]

ReplaceClauses(e) ==
  LET n == e.args.name  t == e.argt  mode == e.args.mode  pre == e.pre  post == e.post
      present == HasName(pre, n)
      clash == present /\ t.name # n /\ HasName(pre, t.name)
      badopt == mode \notin {"silence", "warning", "error"}
      mayRaise == (mode = "error" /\ Widens(pre, t)) \/ badopt
  IN [ C12_replace_absent_raises |-> (~present) => ~OkE(e),
       C13_invalid_option_value_rejected |-> badopt => ~OkE(e),
       C12_duplicate_name_rejected |-> clash => ~OkE(e),
       C12_replace_succeeds |-> (present /\ ~clash /\ ~mayRaise) => OkE(e),
       C12_replace_order_is_list_model |-> (present /\ ~clash /\ OkE(e)) =>
            Names(post) = [i \in Idx(pre.tiers) |-> IF pre.tiers[i].name = n THEN t.name ELSE pre.tiers[i].name],
       C12_replace_maps_name_to_tier |-> (present /\ ~clash /\ OkE(e)) =>
            (HasName(post, t.name) /\ TierNamed(post, t.name) = t /\ SameMapExcept(pre, post, t.name)),
       C12_span_only_widens_to_cover |-> OkE(e) => (post.lo = MinU(pre.lo, t.lo) /\ post.hi = MaxU(pre.hi, t.hi)) ]

(* ---------------- tier-wise edits --------------------------------------------- *)
AllEachOk(e) == \A i \in Idx(e.each) : e.each[i].st = "ok"
HullLo(ts, d) == IF ts = <<>> THEN d ELSE MinOf({d} \cup {ts[i].lo : i \in Idx(ts)})
HullHi(ts, d) == IF ts = <<>> THEN d ELSE MaxOf({d} \cup {ts[i].hi : i \in Idx(ts)})

TierwiseCommon(e, degenerate) ==
  [ C12_tierwise_fails_iff_a_tier_operation_fails |-> (~degenerate) => (OkE(e) <=> AllEachOk(e)),
    C12_tierwise_same_names_same_order |-> RetTg(e) => Names(e.ret) = Names(e.pre),
    C12_tierwise_equals_operation_on_each_tier |-> (RetTg(e) /\ Len(e.ret.tiers) = Len(e.each)) =>
         \A i \in Idx(e.each) : e.each[i].st = "ok" => e.ret.tiers[i] = e.each[i].ret ]

CropTgClauses(e) ==
  LET a == e.args.a  b == e.args.b  mode == e.args.mode  rebase == e.args.rebase
      sharp == mode \in {"strict", "truncated"}
      baseLo == IF rebase THEN 0 ELSE a
      baseHi == IF rebase THEN b - a ELSE b
  IN [ C06_textgrid_crop_rejects_degenerate_window |-> (a >= b) => e.st = "ArgumentError",
       C12_crop_every_tier_shares_span |-> (RetTg(e) /\ sharp) => (\A i \in Idx(e.ret.tiers) : e.ret.tiers[i].lo = e.ret.lo /\ e.ret.tiers[i].hi = e.ret.hi),
       C12_crop_validate_true |-> (RetTg(e) /\ sharp) => e.valid,
       C12_crop_span |-> (RetTg(e) /\ (A2(e) \/ ~rebase)) => (e.ret.lo = HullLo(e.ret.tiers, baseLo) /\ e.ret.hi = HullHi(e.ret.tiers, baseHi)) ]
EraseTgClauses(e) ==
  LET a == e.args.a  b == e.args.b  shrink == e.args.shrink
      d == IF shrink THEN b - a ELSE 0
      prevalid == ValidTg(e.pre)
  IN [ C07_textgrid_erase_rejects_degenerate_region |-> (a >= b) => ~OkE(e),
       C12_erase_every_tier_shares_span |-> (RetTg(e) /\ prevalid /\ A2(e)) => (\A i \in Idx(e.ret.tiers) : e.ret.tiers[i].lo = e.ret.lo /\ e.ret.tiers[i].hi = e.ret.hi),
       C12_erase_validate_true |-> (RetTg(e) /\ prevalid) => e.valid,
       C12_erase_span |-> (RetTg(e) /\ A2(e)) => (e.ret.lo = e.pre.lo /\ e.ret.hi = e.pre.hi - d) ]

SpaceTgClauses(e) ==
  LET d == e.args.d  prevalid == ValidTg(e.pre)
  IN [ C12_space_every_tier_shares_span |-> (RetTg(e) /\ prevalid /\ A2(e)) => (\A i \in Idx(e.ret.tiers) : e.ret.tiers[i].lo = e.ret.lo /\ e.ret.tiers[i].hi = e.ret.hi),
       C12_space_validate_true |-> (RetTg(e) /\ prevalid) => e.valid,
       C12_space_span |-> (RetTg(e) /\ A2(e)) => (e.ret.lo = e.pre.lo /\ e.ret.hi = e.pre.hi + d) ]

EditTgClauses(e) ==
  [ C09_textgrid_span_grows_never_shrinks |-> RetTg(e) =>
        (e.ret.lo = HullLo(e.ret.tiers, e.pre.lo) /\ e.ret.hi = HullHi(e.ret.tiers, e.pre.hi)),
    \* leaving the old span is reported as the reportingMode says: a message is printed in mode "warning" only
    C09_textgrid_shift_prints_only_in_warning_mode |-> e.out => e.args.mode = "warning" ]

(* ---------------- appendTextgrid ------------------------------------------------ *)
AppendTgClauses(e) ==
  LET A == e.pre  B == e.argtg  only == e.args.only  r == e.ret
      both(n) == HasName(A, n) /\ HasName(B, n)
      combined == Names(A) \o SelectSeq(Names(B), LAMBDA n : ~HasName(A, n))
      expectNames == IF only THEN SelectSeq(Names(A), LAMBDA n : HasName(B, n)) ELSE combined
      sh(t) == IF t.kind = "I" THEN Shift(t.ents, A.hi) ELSE ShiftP(t.ents, A.hi)
      entsOf(n) == IF both(n) THEN TierNamed(A, n).ents \o sh(TierNamed(B, n))
                   ELSE IF HasName(A, n) THEN TierNamed(A, n).ents ELSE sh(TierNamed(B, n))
      kindsAgree == \A n \in SeqToSet(Names(A)) : HasName(B, n) => TierNamed(A, n).kind = TierNamed(B, n).kind
      sameEnts(n) == IF TierNamed(r, n).kind = "I" THEN TierNamed(r, n).ents = entsOf(n)
                     ELSE SameBag2(TierNamed(r, n).ents, entsOf(n))
  IN [ C09_append_textgrid_succeeds |-> kindsAgree => OkE(e),
       C09_append_textgrid_tier_set |-> RetTg(e) => Names(r) = expectNames,
       C09_append_textgrid_entries |-> (RetTg(e) /\ A2(e) /\ Names(r) = expectNames) => \A i \in Idx(expectNames) : sameEnts(expectNames[i]),
       C09_append_textgrid_span |-> (RetTg(e) /\ A2(e)) => (r.lo = A.lo /\ r.hi = A.hi + B.hi),
       \* "A's entries unchanged ... B's entries shifted": in the result; A and B themselves stay as they were
       C09_append_textgrid_leaves_both_operands_as_they_were |-> e.post = e.pre /\ e.argtgpost = e.argtg ]

(* ---------------- mergeTiers ------------------------------------------------------ *)
(* e.each = << union-fold of the selected interval tiers, of the selected point tiers >> in that order, *)
(* each present only if at least one tier of the type was selected                                   *)
MergeTgClauses(e) ==
  LET pre == e.pre  names == e.args.names  preserve == e.args.preserve  r == e.ret
      others == IF preserve THEN SelectSeq(pre.tiers, LAMBDA t : ~\E i \in Idx(names) : names[i] = t.name) ELSE <<>>
      merged == [i \in Idx(e.each) |-> e.each[i].ret]
      present == \A i \in Idx(names) : HasName(pre, names[i])
  IN [ C10_mergeTiers_succeeds |-> (present /\ AllEachOk(e)) => OkE(e),
       C10_mergeTiers_unknown_name_raises |-> (~present) => ~OkE(e),
       C10_mergeTiers_is_union_of_selected |-> (RetTg(e) /\ AllEachOk(e)) => r.tiers = others \o merged ]

(* alignBoundariesAcrossTiers(tg, referenceName, maxDifference) (C14): dejitter applied to every non-reference tier,   *)
(* the reference tier left alone; e.each[i] = the real dejitter of tier i against the reference (for the reference      *)
(* tier itself: the tier unchanged); the function works on the textgrid it is given and returns it                      *)
AlignTgClauses(e) ==
  LET pre == e.pre  r == e.ret  ref == e.args.ref IN
  [ C14_align_same_names_same_order |-> RetTg(e) => Names(r) = Names(pre),
    C14_align_reference_tier_untouched |-> (RetTg(e) /\ HasName(pre, ref) /\ HasName(r, ref)) => TierNamed(r, ref) = TierNamed(pre, ref),
    C14_align_applies_dejitter_to_every_other_tier |-> (RetTg(e) /\ Len(r.tiers) = Len(e.each)) =>
        \A i \in Idx(e.each) : e.each[i].st = "ok" => r.tiers[i] = e.each[i].ret,
    \* "too dense": two reference timestamps closer than maxDifference; exactly maxDifference apart is not too dense, but under
    \* inexact arithmetic the computed difference decides
    C14_align_fails_only_if_a_dejitter_fails_or_reference_too_dense |->
        (AllEachOk(e) /\ ~e.args.dense /\ (e.exactfp \/ ~e.args.tie)) => OkE(e) ]

NewTgClauses(e) ==
  [ C13_new_is_equal_copy |-> RetTg(e) /\ e.ret = e.pre,
    C13_new_shares_no_tier_object |-> ~e.alias ]

(* save (C13): the receiver is unchanged (CopyClauses) and a save that raises leaves the bytes of an existing  *)
(* destination file as they were; e.filesame is the byte comparison made by the harness                       *)
SaveTgClauses(e) ==
  [ C13_failed_save_leaves_destination_untouched |-> (~OkE(e)) => e.filesame,
    C13_invalid_format_rejected |-> (e.args.fmt = "bogus") => ~OkE(e) ]

IsTgCopyOp(op) == op \in {"cropTg", "eraseTg", "spaceTg", "editTg", "appendTg", "mergeTg", "newTg", "saveTg", "validateTg"}

TgOpClauses(e) ==
  CASE e.op = "addTier" -> FailsOf(AddClauses(e))
    [] e.op = "removeTier" -> FailsOf(RemoveClauses(e))
    [] e.op = "renameTier" -> FailsOf(RenameClauses(e))
    [] e.op = "replaceTier" -> FailsOf(ReplaceClauses(e))
    [] e.op = "cropTg" -> FailsOf(CropTgClauses(e)) \cup FailsOf(TierwiseCommon(e, e.args.a >= e.args.b))
    [] e.op = "eraseTg" -> FailsOf(EraseTgClauses(e)) \cup FailsOf(TierwiseCommon(e, e.args.a >= e.args.b))
    [] e.op = "spaceTg" -> FailsOf(SpaceTgClauses(e)) \cup FailsOf(TierwiseCommon(e, FALSE))
    [] e.op = "editTg" -> FailsOf(EditTgClauses(e)) \cup FailsOf(TierwiseCommon(e, FALSE))
    [] e.op = "appendTg" -> FailsOf(AppendTgClauses(e))
    [] e.op = "mergeTg" -> FailsOf(MergeTgClauses(e))
    [] e.op = "newTg" -> FailsOf(NewTgClauses(e))
    [] e.op = "alignTg" -> FailsOf(AlignTgClauses(e))
    [] e.op = "saveTg" -> FailsOf(SaveTgClauses(e))
    [] e.op = "validateTg" -> {}
    [] OTHER -> {"UNKNOWN_OP"}

TgFails(e) == TgOpClauses(e) \cup (IF IsTgCopyOp(e.op) THEN FailsOf(CopyClauses(e)) ELSE FailsOf(MutClauses(e)))
=============================================================================
