---------------------------- MODULE Trace_PointObj ----------------------------
(* Trace validation of recorded PointObject.getPointsInInterval calls against PointObj's clauses. *)
EXTENDS Integers, Sequences, FiniteSets, TLC, TLCExt, Json, IOUtils
Events == ndJsonDeserialize(IOEnv.TRACE_FILE)
P == INSTANCE PointObj WITH MaxLen <- 0, VMax <- 0, Emit <- FALSE, pts <- <<>>, out <- [op |-> "none"]
VARIABLE l
TraceInit == l = 1
TraceNext == /\ l <= Len(Events)
             /\ LET e == Events[l]
                    f == P!PointObjFails(e)
                IN IF f = {} THEN TRUE ELSE PrintT(<<"VERDICT", e.id, f>>)
             /\ l' = l + 1
TraceSpec == TraceInit /\ [][TraceNext]_l
AllConsumed == TLCGet("stats").diameter - 1 = Len(Events)
=============================================================================
