------------------------------ MODULE KlattMap ------------------------------
(***************************************************************************)
(* Growth beyond the listed properties (X07): the ordered tier map of the  *)
(* KlattGrid containers (_KlattBaseTier.addTier in                          *)
(* data_classes/klattgrid.py: KlattContainerTier, KlattIntermediateTier).  *)
(*                                                                         *)
(* State: the ordered name list, the set of names the dictionary holds,    *)
(* the child spans, and the container's own span (None until a child with  *)
(* a span arrives).  One action, AddTier(child, index), written the way    *)
(* the code runs it: the name is put into the list FIRST (python's         *)
(* list.insert clamps any index), then a name the dictionary already holds *)
(* raises TierNameExistsError, then the span grows to the hull.            *)
(*                                                                         *)
(* Consequence TLC exhibits (deviation D3 of DESIGN section 17): a         *)
(* rejected add is not all-or-nothing - the list has gained a second copy  *)
(* of the name.  WellFormed therefore holds only on histories without a    *)
(* rejected add (WellFormedUntilRejected); with `failed` dropped from it   *)
(* TLC returns the two-step counterexample add(a); add(a).                 *)
(*                                                                         *)
(* `hist` carries the operations so far; every maximal history is emitted  *)
(* as JSON and replayed on real container objects; each real step is then  *)
(* judged by KlattMapFails (trace validation, Trace_KlattMap).             *)
(***************************************************************************)
EXTENDS Integers, Sequences, FiniteSets, TLC, Json
CONSTANTS Names, TMax, Depth, Emit, IdxSet     \* IdxSet: the tierIndex values tried (NoIdx = None); negative values via MC_KlattMap
NoneV == -1                                   \* python's None for a span end
NoIdx == 99                                   \* python's tierIndex=None (append)
VARIABLES names, kids, lo, hi, failed, hist
vars == <<names, kids, lo, hi, failed, hist>>

Spans == {[lo |-> NoneV, hi |-> NoneV]} \cup { s \in [lo : 0..TMax, hi : 0..TMax] : s.lo <= s.hi }

\* python's list.insert(i, x): negative indices count from the end, everything is clamped to [0, len]
ClampIdx(i, n) == LET j == IF i < 0 THEN i + n ELSE i IN IF j < 0 THEN 0 ELSE IF j > n THEN n ELSE j
InsertAt(s, k, x) == SubSeq(s, 1, k) \o <<x>> \o SubSeq(s, k + 1, Len(s))     \* k = number of elements before x

\* the state after addTier, as a function of the state before (shared by the machine and by trace validation)
\* st: a record [names, kids (function name -> span), lo, hi]; child: [name, lo, hi]; idx: NoIdx or an integer
AddTierPost(st, child, idx) ==
  LET n2 == IF idx = NoIdx THEN Append(st.names, child.name) ELSE InsertAt(st.names, ClampIdx(idx, Len(st.names)), child.name)
  IN IF child.name \in DOMAIN st.kids
     THEN [status |-> "TierNameExistsError", names |-> n2, kids |-> st.kids, lo |-> st.lo, hi |-> st.hi]
     ELSE [status |-> "ok", names |-> n2,
           kids |-> [k \in DOMAIN st.kids \cup {child.name} |-> IF k = child.name THEN [lo |-> child.lo, hi |-> child.hi] ELSE st.kids[k]],
           lo |-> IF st.lo = NoneV \/ (child.lo # NoneV /\ child.lo < st.lo) THEN child.lo ELSE st.lo,
           hi |-> IF st.hi = NoneV \/ (child.hi # NoneV /\ child.hi > st.hi) THEN child.hi ELSE st.hi]

Cur == [names |-> names, kids |-> kids, lo |-> lo, hi |-> hi]
EmptyKids == [k \in {} |-> [lo |-> NoneV, hi |-> NoneV]]
Init == names = <<>> /\ kids = EmptyKids /\ lo = NoneV /\ hi = NoneV /\ failed = FALSE /\ hist = <<>>
AddTier(child, idx) ==
  LET p == AddTierPost(Cur, child, idx) IN
  /\ Len(hist) < Depth
  /\ names' = p.names /\ kids' = p.kids /\ lo' = p.lo /\ hi' = p.hi
  /\ failed' = (failed \/ p.status # "ok")
  /\ hist' = Append(hist, [child |-> child, idx |-> idx])
Next == \E nm \in Names, sp \in Spans, idx \in IdxSet : AddTier([name |-> nm, lo |-> sp.lo, hi |-> sp.hi], idx)

\* ---- what a user of the containers relies on
NoDup(s) == \A i, j \in 1..Len(s) : i # j => s[i] # s[j]
ToSetS(s) == { s[i] : i \in 1..Len(s) }
KidLos == { kids[k].lo : k \in DOMAIN kids } \ {NoneV}
KidHis == { kids[k].hi : k \in DOMAIN kids } \ {NoneV}
MinS(S) == CHOOSE x \in S : \A y \in S : x <= y
MaxS(S) == CHOOSE x \in S : \A y \in S : x >= y
WellFormed == NoDup(names) /\ ToSetS(names) = DOMAIN kids
SpanIsHull == /\ lo = (IF KidLos = {} THEN NoneV ELSE MinS(KidLos))
              /\ hi = (IF KidHis = {} THEN NoneV ELSE MaxS(KidHis))
WellFormedUntilRejected == failed \/ WellFormed
\* the dictionary never loses or gains a name without a successful add, rejected or not
KeysSubsetOfNames == DOMAIN kids \subseteq ToSetS(names)
\* D3 made explicit: after a rejected add the list is longer than the dictionary
RejectedAddLeavesACopy == failed => Len(names) > Cardinality(DOMAIN kids)
\* span: the hull of the child spans that are not None (holds on every history: a rejected add does not touch it)
SpanInv == SpanIsHull
\* action property: names only grow, by exactly one, and the relative order of the earlier names is kept
RECURSIVE IsSubseq(_, _)
IsSubseq(a, b) == IF a = <<>> THEN TRUE ELSE IF b = <<>> THEN FALSE
                  ELSE IF Head(a) = Head(b) THEN IsSubseq(Tail(a), Tail(b)) ELSE IsSubseq(a, Tail(b))
OrderKept == [][Len(names') = Len(names) + 1 /\ IsSubseq(names, names')]_vars

\* ---- judging one real step: event e = [pre, child, idx, status, post, eqsame, eqprev, other, eqother]
\* kids arrive as a JSON object name -> [lo, hi]; records and functions over strings coincide in TLC
SameState(a, b) == /\ a.names = b.names /\ a.lo = b.lo /\ a.hi = b.hi
                   /\ DOMAIN a.kids = DOMAIN b.kids /\ \A k \in DOMAIN a.kids : a.kids[k] = b.kids[k]
KlattMapClauses(e) ==
  LET p == AddTierPost(e.pre, e.child, e.idx) IN
  [ X07_status_is_the_models |-> e.status = p.status,
    X07_name_list_is_the_models |-> e.post.names = p.names,
    X07_dictionary_is_the_models |-> DOMAIN e.post.kids = DOMAIN p.kids /\ \A k \in DOMAIN p.kids : e.post.kids[k] = p.kids[k],
    X07_span_is_the_models |-> e.post.lo = p.lo /\ e.post.hi = p.hi,
    X07_equality_is_state_equality |-> e.eqsame = TRUE /\ (e.eqprev = SameState(e.pre, e.post)) /\ (e.eqother = SameState(e.other, e.post)) ]
KlattMapFails(e) == { c \in DOMAIN KlattMapClauses(e) : ~KlattMapClauses(e)[c] }

EmitInv == IF Emit /\ Len(hist) = Depth THEN PrintT(ToJson(hist)) ELSE TRUE
=============================================================================
