------------------------------ MODULE MC_Query ------------------------------
(***************************************************************************)
(* Code-shaped transcriptions of the query helpers (getNonEntries,         *)
(* timestamps, the getValueAtTime loop with its carried start index,       *)
(* getValuesInInterval, invertIntervalList, intervalOverlapCheck, find)    *)
(* checked against QueryProp for every tier of the universe and every      *)
(* small query; every case is emitted for replay.                          *)
(***************************************************************************)
EXTENDS QueryProp, TLC, Json
CONSTANTS N, K, Emit, Slice, NSlices
U == INSTANCE TierUniverse WITH N <- N, K <- K, LabelsU <- {"a", "b"}
VARIABLES t, out
vars == <<t, out>>
USeq == SetToSeq(U!IvTiers("t") \cup U!PtTiers("t"))
Mine == { USeq[i] : i \in { j \in 1..Len(USeq) : j % NSlices = Slice } }
Init == t \in Mine /\ out = [op |-> "none"]

\* ---- getNonEntries as the code does it (between consecutive entries, head from 0, tail to maxTimestamp)
NonEntriesImpl(es, hi) ==
  LET mid == SelectSeq([i \in 1..(Len(es) - 1) |-> [s |-> es[i].e, e |-> es[i + 1].s, l |-> ""]], LAMBDA x : x.s < x.e)
      head == IF es[1].s > 0 THEN <<[s |-> 0, e |-> es[1].s, l |-> ""]>> ELSE <<>>
      tail == IF es[Len(es)].e < hi THEN <<[s |-> es[Len(es)].e, e |-> hi, l |-> ""]>> ELSE <<>>
  IN head \o mid \o tail
TimestampsImpl(tt) == SortSeq(SetToSeq(IF tt.kind = "I" THEN Bounds(tt.ents) ELSE Times(tt.ents)), LAMBDA a, b : a < b)

\* ---- utils.getValueAtTime: one pass with a start index carried from point to point (data sorted by time)
RECURSIVE ExactScan(_, _, _)
ExactScan(d, ts, i) == IF i > Len(d) THEN [row |-> -1, i |-> i]
                       ELSE IF d[i].t >= ts THEN [row |-> IF d[i].t = ts THEN d[i].id ELSE -1, i |-> i]
                       ELSE ExactScan(d, ts, i + 1)
RECURSIVE FuzzyScan(_, _, _, _, _)
FuzzyScan(d, ts, i, bestT, bestId) ==
  IF i > Len(d) THEN [row |-> bestId, i |-> i - 1]
  ELSE LET cur == AbsV(d[i].t - ts)  best == AbsV(bestT - ts) IN
       IF cur < best THEN (IF cur = 0 THEN [row |-> d[i].id, i |-> i] ELSE FuzzyScan(d, ts, i + 1, d[i].t, d[i].id))
       ELSE IF cur > best THEN [row |-> bestId, i |-> i - 1]
       ELSE FuzzyScan(d, ts, i + 1, bestT, bestId)
RECURSIVE AtPointsImpl(_, _, _, _, _)
AtPointsImpl(ps, d, fuzzy, k, i) ==
  IF k > Len(ps) THEN <<>>
  ELSE LET r == IF fuzzy THEN FuzzyScan(d, ps[k].t, i, d[i].t, d[i].id) ELSE ExactScan(d, ps[k].t, i)
       IN <<r.row>> \o AtPointsImpl(ps, d, fuzzy, k + 1, IF r.i < 1 THEN 1 ELSE r.i)

DataSets == { [k \in 1..Len(ts) |-> [t |-> ts[k], id |-> k]] : ts \in {<<0, 2, 4>>, <<1, 1, 3>>, <<0, 1, 2, 3, 4>>, <<2>>, <<1, 3>>} }
Ev(op, args, ret) == [op |-> op, args |-> args, pre |-> t, st |-> "ok", ret |-> ret]
Next == /\ out.op = "none" /\ t' = t
        /\ \/ t.kind = "I" /\ t.ents # <<>> /\ out' = Ev("nonEntries", [k |-> 0], NonEntriesImpl(t.ents, t.hi))
           \/ out' = Ev("timestamps", [k |-> 0], TimestampsImpl(t))
           \/ t.kind = "I" /\ \E d \in DataSets : out' = Ev("valuesInIntervals", [data |-> d],
                 [i \in Idx(t.ents) |-> LET sel == SelectSeq(d, LAMBDA x : t.ents[i].s <= x.t /\ t.ents[i].e >= x.t) IN [k \in Idx(sel) |-> sel[k].id]])
           \/ t.kind = "P" /\ \E d \in DataSets, f \in BOOLEAN : out' = Ev("valuesAtPoints", [data |-> d, fuzzy |-> f], AtPointsImpl(t.ents, d, f, 1, 1))
NoFail == IF out.op = "none" \/ QueryFails(out) = {} THEN TRUE ELSE PrintT(<<"FAILS", QueryFails(out), out>>) /\ FALSE
EmitInv == IF Emit /\ out.op # "none" THEN PrintT(ToJson(out)) ELSE TRUE
=============================================================================
