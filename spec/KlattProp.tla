----------------------------- MODULE KlattProp -----------------------------
(***************************************************************************)
(* C19: KlattGrid and point-object files.                                  *)
(* A KlattGrid is projected to the sequence of its leaf tiers              *)
(*   [path, lo, hi, pts]  with pts a sequence of [t, v];                   *)
(* path is "container/intermediate/subtier" or the top-level tier's name;  *)
(* every number is the RANK of its bit pattern among all floats of the     *)
(* event (equal rank <=> digit-for-digit identical).                       *)
(* A value-modifying function f is given extensionally by e.args.fmap, a   *)
(* sequence of <<rank of x, rank of f(x)>> computed by the harness on the  *)
(* concrete floats.                                                        *)
(***************************************************************************)
EXTENDS Integers, Sequences, FiniteSets, SequencesExt

FailsOfK(r) == {k \in DOMAIN r : ~r[k]}
IdxK(s) == 1..Len(s)
Paths(tree) == [i \in IdxK(tree) |-> tree[i].path]
OkK(e) == e.st = "ok"
FApply(fmap, x) == IF \E i \in IdxK(fmap) : fmap[i][1] = x THEN fmap[CHOOSE i \in IdxK(fmap) : fmap[i][1] = x][2] ELSE -99

\* open -> save -> open: same hierarchy, spans, times and values
SaveOpenClauses(e) ==
  [ C19_klatt_save_and_open_succeed |-> OkK(e),
    C19_klatt_same_tier_hierarchy |-> OkK(e) => Paths(e.post) = Paths(e.pre),
    C19_klatt_same_spans |-> (OkK(e) /\ Len(e.post) = Len(e.pre)) => \A i \in IdxK(e.pre) : e.post[i].lo = e.pre[i].lo /\ e.post[i].hi = e.pre[i].hi,
    C19_klatt_same_points_digit_for_digit |-> (OkK(e) /\ Len(e.post) = Len(e.pre)) => \A i \in IdxK(e.pre) : e.post[i].pts = e.pre[i].pts ]

\* modifySubtiers / modifyValues: f applied to every value of the addressed tiers exactly once, times and other tiers untouched
Addressed(e, leaf) == \E i \in IdxK(e.args.targets) : e.args.targets[i] = leaf.path
ModifyClauses(e) ==
  [ C19_modify_succeeds |-> OkK(e),
    C19_modify_keeps_hierarchy |-> OkK(e) => Paths(e.post) = Paths(e.pre),
    C19_modify_applies_function_exactly_once |-> (OkK(e) /\ Len(e.post) = Len(e.pre)) => \A i \in IdxK(e.pre) :
        Addressed(e, e.pre[i]) => (Len(e.post[i].pts) = Len(e.pre[i].pts) /\ \A j \in IdxK(e.pre[i].pts) :
                                       e.post[i].pts[j].v = FApply(e.args.fmap, e.pre[i].pts[j].v)),
    C19_modify_leaves_times_untouched |-> (OkK(e) /\ Len(e.post) = Len(e.pre)) => \A i \in IdxK(e.pre) :
        Len(e.post[i].pts) = Len(e.pre[i].pts) /\ \A j \in IdxK(e.pre[i].pts) : e.post[i].pts[j].t = e.pre[i].pts[j].t,
    C19_modify_leaves_other_tiers_untouched |-> (OkK(e) /\ Len(e.post) = Len(e.pre)) => \A i \in IdxK(e.pre) :
        (~Addressed(e, e.pre[i])) => e.post[i] = e.pre[i] ]

\* point objects: [class, lo, hi, pts] with pts a sequence of sequences of ranks
PointRTClauses(e) ==
  [ C19_point_object_save_and_open_succeed |-> OkK(e),
    C19_point_object_same_class_span_points |-> OkK(e) => e.post = e.pre ]
\* the long and the short text encoding of the same data open to equal objects (and to the data)
LongShortClauses(e) ==
  [ C19_long_encoding_opens |-> e.stlong = "ok",
    C19_short_encoding_opens |-> e.stshort = "ok",
    C19_long_and_short_open_to_equal_objects |-> (e.stlong = "ok" /\ e.stshort = "ok") => (e.long = e.short /\ e.eqflag),
    C19_encodings_open_to_the_encoded_data |-> (e.stlong = "ok" => e.long = e.pre) /\ (e.stshort = "ok" => e.short = e.pre) ]

\* growth beyond the listed property (X05): the first open of a file returns what the file encodes
\* (e.pre: the leaves a synthetic file was generated from, in file order; e.post: the leaves of the opened object)
OpenFileClauses(e) == [ X05_open_succeeds |-> e.st = "ok",
                        X05_open_returns_the_encoded_hierarchy_spans_and_points |-> e.st = "ok" => e.post = e.pre ]

KlattFails(e) == CASE e.op = "klattSaveOpen" -> FailsOfK(SaveOpenClauses(e))
                   [] e.op = "klattOpen" -> FailsOfK(OpenFileClauses(e))
                   [] e.op \in {"modifySubtiers", "modifyValues"} -> FailsOfK(ModifyClauses(e))
                   [] e.op = "pointRT" -> FailsOfK(PointRTClauses(e))
                   [] e.op = "pointLongShort" -> FailsOfK(LongShortClauses(e))
                   [] OTHER -> {"UNKNOWN_OP"}
=============================================================================
