------------------------------ MODULE MC_Klatt ------------------------------
(***************************************************************************)
(* KlattMachine: mem is the in-memory KlattGrid (leaf tiers with points    *)
(* whose values are provenance terms: <<"v", id>> an original value,       *)
(* <<"f", fid, term>> a value produced by modification function fid),      *)
(* file is what is on disk.  Save / Open / ModifySubtiers / ModifyValues.  *)
(* Invariants: Open(Save(mem)) = mem term for term; a modification wraps   *)
(* every value of the addressed leaves exactly once and touches nothing    *)
(* else.  Every behaviour is a sequence of API calls; with Emit they are    *)
(* printed and replayed on the real classes.                               *)
(***************************************************************************)
EXTENDS KlattProp, TLC, Json

CONSTANTS NFormants, NPoints, Depth, Emit
VARIABLES mem, file, hist
vars == <<mem, file, hist>>

V(i) == <<"v", i>>
Leaf(path, n, base) == [path |-> path, lo |-> 0, hi |-> 9, pts |-> [j \in 1..n |-> [t |-> j, v |-> V(base + j)]]]
SubPath(c, k, i) == c \o "/" \o k \o "/" \o k \o " [" \o ToString(i) \o "]"
Tree0 == <<Leaf("pitch", NPoints, 0), Leaf("voicingAmplitude", 1, 10)>>
         \o [i \in 1..NFormants |-> Leaf(SubPath("oral_formants", "formants", i), NPoints, 20 + 4 * i)]
         \o [i \in 1..NFormants |-> Leaf(SubPath("oral_formants", "bandwidths", i), NPoints, 50 + 4 * i)]
         \o <<Leaf(SubPath("nasal_formants", "formants", 1), 0, 90), Leaf("gain", 1, 95)>>
Fids == {"scale", "const"}
Wrap(leaf, f) == [leaf EXCEPT !.pts = [j \in 1..Len(leaf.pts) |-> [leaf.pts[j] EXCEPT !.v = <<"f", f, @>>]]]
IsSub(leaf, c, k) == \E i \in 1..NFormants : leaf.path = SubPath(c, k, i)

Init == mem = Tree0 /\ file = <<>> /\ hist = <<>>
Save == /\ file' = mem /\ mem' = mem /\ hist' = Append(hist, [op |-> "save"])
Open == /\ file # <<>> /\ mem' = file /\ file' = file /\ hist' = Append(hist, [op |-> "open"])
ModifySubtiers(c, k, f) == /\ mem' = [i \in 1..Len(mem) |-> IF IsSub(mem[i], c, k) THEN Wrap(mem[i], f) ELSE mem[i]]
                           /\ file' = file /\ hist' = Append(hist, [op |-> "modifySubtiers", c |-> c, k |-> k, f |-> f])
ModifyValues(p, f) == /\ mem' = [i \in 1..Len(mem) |-> IF mem[i].path = p THEN Wrap(mem[i], f) ELSE mem[i]]
                      /\ file' = file /\ hist' = Append(hist, [op |-> "modifyValues", p |-> p, f |-> f])
Next == /\ Len(hist) < Depth
        /\ \/ Save \/ Open
           \/ \E k \in {"formants", "bandwidths"}, f \in Fids : ModifySubtiers("oral_formants", k, f)
           \/ \E p \in {"pitch", "gain"}, f \in Fids : ModifyValues(p, f)
Spec == Init /\ [][Next]_vars

\* after Save;Open the memory is what was saved, term for term
RoundTrip == (hist # <<>> /\ hist[Len(hist)].op = "open") => mem = file
\* hierarchy and times never change; every value is an original wrapped by at most Depth functions
Shape == /\ [i \in 1..Len(mem) |-> mem[i].path] = [i \in 1..Len(Tree0) |-> Tree0[i].path]
         /\ \A i \in 1..Len(mem) : \A j \in 1..Len(mem[i].pts) : mem[i].pts[j].t = Tree0[i].pts[j].t
EmitInv == IF Emit /\ Len(hist) = Depth THEN PrintT(ToJson([hist |-> hist])) ELSE TRUE
=============================================================================
