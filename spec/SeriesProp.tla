----------------------------- MODULE SeriesProp -----------------------------
(***************************************************************************)
(* C20: numeric series helpers against their textbook definitions.         *)
(* Series values are integers (floats scaled by a power of ten by the      *)
(* harness); results that are not representable are scaled and rounded by  *)
(* the harness and compared here within the stated tolerances.             *)
(***************************************************************************)
EXTENDS Integers, Sequences, FiniteSets, SequencesExt, Functions, Folds

FailsOfS(r) == {k \in DOMAIN r : ~r[k]}
IdxQ(s) == 1..Len(s)
AbsQ(x) == IF x < 0 THEN -x ELSE x
SumSeq(s) == FoldLeft(LAMBDA a, b : a + b, 0, s)
SumSq(s) == FoldLeft(LAMBDA a, b : a + b * b, 0, s)
MaxSeq(s) == CHOOSE x \in {s[i] : i \in IdxQ(s)} : \A i \in IdxQ(s) : x >= s[i]
MinSeq(s) == CHOOSE x \in {s[i] : i \in IdxQ(s)} : \A i \in IdxQ(s) : x <= s[i]
OkS(e) == e.st = "ok"

(* ---------------- median filter -------------------------------------------------- *)
\* m is a median of the odd-length sequence w: as many elements <= m as >= m around the middle
IsMedian(w, m) == /\ \E i \in IdxQ(w) : w[i] = m
                  /\ 2 * Cardinality({i \in IdxQ(w) : w[i] < m}) < Len(w)
                  /\ 2 * Cardinality({i \in IdxQ(w) : w[i] > m}) < Len(w)
Clamp1(i, n) == IF i < 1 THEN 1 ELSE IF i > n THEN n ELSE i
\* element i and its o neighbours on either side, the series extended by its edge values
WindowAt(xs, i, o) == [k \in 1..(2 * o + 1) |-> xs[Clamp1(i - o + k - 1, Len(xs))]]
MedianClauses(e) ==
  LET xs == e.xs  n == Len(xs)  o == e.args.window \div 2  r == e.ret IN
  [ C20_median_same_length |-> OkS(e) /\ Len(r) = n,
    C20_median_of_window_with_edge_padding |-> (OkS(e) /\ Len(r) = n /\ e.args.pad) => \A i \in 1..n : IsMedian(WindowAt(xs, i, o), r[i]),
    C20_median_of_window_inside |-> (OkS(e) /\ Len(r) = n /\ ~e.args.pad) => \A i \in 1..n :
        (i - o >= 1 /\ i + o <= n) => IsMedian(WindowAt(xs, i, o), r[i]),
    C20_median_edges_unchanged_without_padding |-> (OkS(e) /\ Len(r) = n /\ ~e.args.pad) => \A i \in 1..n :
        ~(i - o >= 1 /\ i + o <= n) => r[i] = xs[i] ]

(* ---------------- z-normalisation: e.ret = round(1000 z) ------------------------- *)
ZnormClauses(e) ==
  LET xs == e.xs  n == Len(xs)  r == e.ret IN
  [ C20_znorm_same_length |-> OkS(e) /\ Len(r) = n,          \* (vectors have at least two distinct values: the deviation is defined, so a failure is one)
    C20_znorm_preserves_rank_order |-> (OkS(e) /\ Len(r) = n) => \A i, j \in 1..n :
        (xs[i] < xs[j] => r[i] <= r[j]) /\ (xs[i] = xs[j] => r[i] = r[j]),
    C20_znorm_mean_zero |-> (OkS(e) /\ Len(r) = n) => AbsQ(SumSeq(r)) <= n,
    C20_znorm_sample_standard_deviation_one |-> (OkS(e) /\ Len(r) = n) =>
        \* (|z| <= (n - 1) / sqrt(n) < 4 for n <= 16: anything larger is wrong outright, and the squares below stay within 32 bits)
        (\A i \in 1..n : AbsQ(r[i]) <= 5000) /\
        \* r[i] = 1000 z[i] + d[i] with |d[i]| <= 1/2: the sum of squares is off by at most sum |r[i]| + n
        AbsQ(SumSq(r) - (n - 1) * 1000000) <= SumSeq([i \in 1..n |-> AbsQ(r[i])]) + n + 10 ]

(* ---------------- rms: e.ret = round(100 rms) -------------------------------------- *)
RmsClauses(e) ==
  LET xs == e.xs  n == Len(xs) IN
  [ C20_rms_definition |-> OkS(e) /\ AbsQ(e.ret * e.ret * n - 10000 * SumSq(xs)) <= (2 * e.ret + 1) * n ]

(* ---------------- pitch measures: e.ret = [mean, max, min, range, var, std] x 100, rounded -- *)
(* (the harness may add a large constant to every value handed to the code and takes it off mean, max and min again:  *)
(*  variance, deviation and range do not depend on it, and a one-pass variance formula loses them to cancellation)      *)
RECURSIVE MedianOf(_)
MedianOf(w) == CHOOSE m \in {w[i] : i \in IdxQ(w)} : IsMedian(w, m)
PitchClauses(e) ==
  LET filtered == IF e.args.window >= 0 THEN [i \in IdxQ(e.xs) |-> MedianOf(WindowAt(e.xs, i, e.args.window \div 2))] ELSE e.xs
      xs == IF e.args.filterZero THEN SelectSeq(filtered, LAMBDA v : v # 0) ELSE filtered
      n == Len(xs)  S == SumSeq(xs)  Q == SumSq(xs)  r == e.ret  sc == e.scale
  IN [ C20_pitch_measures_defined_for_every_series |-> OkS(e),      \* a constant run of 0.1 must not end in sqrt of a negative rounding residue
       C20_pitch_empty_gives_zeros |-> (OkS(e) /\ n = 0) => \A i \in 1..6 : r[i] = 0,
       C20_pitch_mean |-> (OkS(e) /\ n > 0) => AbsQ(r[1] * n * sc - 100 * S) <= n * sc,
       C20_pitch_max_min_range |-> (OkS(e) /\ n > 0) => (r[2] * sc = 100 * MaxSeq(xs) /\ r[3] * sc = 100 * MinSeq(xs)
                                                          /\ r[4] * sc = 100 * (MaxSeq(xs) - MinSeq(xs))),
       C20_pitch_population_variance |-> (OkS(e) /\ n > 0) => AbsQ(r[5] * n * n * sc * sc - 100 * (n * Q - S * S)) <= n * n * sc * sc,
       C20_pitch_deviation_is_root_of_variance |-> (OkS(e) /\ n > 0) => AbsQ(r[6] * r[6] - 100 * r[5]) <= 2 * r[6] + 101 ]

(* ---------------- pitch jump detector: e.ret = flagged positions (1-based index of the later value) *)
JumpClauses(e) ==
  LET xs == e.xs  t == e.args.thr  r == {e.ret[k] : k \in IdxQ(e.ret)}
      beyond(i) == xs[i - 1] * 100 < xs[i] * t \/ xs[i - 1] * t > xs[i] * 100          \* jump by more than the ratio
      exactly(i) == xs[i - 1] * 100 = xs[i] * t \/ xs[i - 1] * t = xs[i] * 100
  IN [ C20_jump_flagged_iff_ratio_beyond_threshold |-> OkS(e) /\ \A i \in 2..Len(xs) :
          (beyond(i) => i \in r) /\ ((~beyond(i) /\ ~exactly(i)) => i \notin r),
       C20_jump_flags_are_positions |-> OkS(e) => \A i \in r : i \in 2..Len(xs) ]

(* ---------------- listing parser: rows of cells; a cell is a value id >= 0 or -1 (undefined marker) -- *)
ListingClauses(e) ==
  LET rows == e.rows  hasU(row) == \E k \in IdxQ(row) : row[k] = -1
      expect == IF e.args.subst THEN [i \in IdxQ(rows) |-> [k \in IdxQ(rows[i]) |-> IF rows[i][k] = -1 THEN -2 ELSE rows[i][k]]]
                ELSE SelectSeq(rows, LAMBDA row : ~hasU(row))
  IN [ C20_listing_parses_every_row |-> OkS(e) /\ e.ret = expect ]
\* filterTimeSeriesData: same number and order of rows, other columns untouched
RowFilterClauses(e) ==
  [ C20_filters_keep_rows_and_order |-> OkS(e) /\ Len(e.ret) = Len(e.rows)
        /\ \A i \in IdxQ(e.rows) : i <= Len(e.ret) => (Len(e.ret[i]) = Len(e.rows[i])
              /\ \A k \in IdxQ(e.rows[i]) : k # e.args.index => e.ret[i][k] = e.rows[i][k]) ]

\* znormalizeSpeakerData (no zero filtering): the chosen column z-normalised, every row and every other column kept (e.kept)
SpeakerZClauses(e) == [ C20_filters_keep_rows_and_order |-> OkS(e) /\ e.kept ] @@ ZnormClauses(e)

SeriesFails(e) == CASE e.op = "median" -> FailsOfS(MedianClauses(e))
                    [] e.op = "speakerz" -> FailsOfS(SpeakerZClauses(e))
                    [] e.op = "znorm" -> FailsOfS(ZnormClauses(e))
                    [] e.op = "rms" -> FailsOfS(RmsClauses(e))
                    [] e.op = "pitch" -> FailsOfS(PitchClauses(e))
                    [] e.op = "jumps" -> FailsOfS(JumpClauses(e))
                    [] e.op = "listing" -> FailsOfS(ListingClauses(e))
                    [] e.op = "rowfilter" -> FailsOfS(RowFilterClauses(e))
                    [] OTHER -> {"UNKNOWN_OP"}
=============================================================================
