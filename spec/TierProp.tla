----------------------------- MODULE TierProp -----------------------------
(***************************************************************************)
(* Property layer: what the property statements C05..C15 say about one     *)
(* call on a tier, as named clauses over an event record                   *)
(*   e = [op, args, pre, arg, st, pe, ret, post, argpost, out, arith]      *)
(* pre/post: receiver before/after; arg/argpost: tier argument before/     *)
(* after (NoTier if none); st: "ok" or the exception class name; pe: the   *)
(* exception is a PraatioException; ret: returned tier (NoTier if none);   *)
(* out: the call printed something; arith: times are exact grid integers   *)
(* (FALSE: times are order-preserving ranks, arithmetic clauses vacuous).  *)
(*                                                                         *)
(* Each operation has an operator returning a record clause-name |-> BOOL; *)
(* Fails(e) is the set of clause names that do not hold.  The same Fails   *)
(* judges the results of TierImpl (bounded model checking) and the events  *)
(* recorded from the real code (trace validation).                         *)
(***************************************************************************)
EXTENDS Grid

Ok(e) == e.st = "ok"
RetTier(e) == Ok(e) /\ IsTier(e.ret)
A(e) == e.arith

Labels(es) == [i \in Idx(es) |-> es[i].l]
FirstStart(es, dflt) == IF es = <<>> THEN dflt ELSE es[1].s
LastEnd(es, dflt) == IF es = <<>> THEN dflt ELSE es[Len(es)].e

(* ---------------- C13 clauses shared by all operations ------------------ *)
CopyOpClauses(e) ==
  [ C13_receiver_unchanged |-> e.post = e.pre,
    C13_argument_unchanged |-> e.argpost = e.arg,
    \* the returned tier is a new object: it is neither the receiver nor the argument, and editing it afterwards does not show
    \* in either (e.alias: established by the harness by identity and by a probing edit of the result)
    C13_result_shares_nothing_with_the_operands |-> ~e.alias ]
MutatorClauses(e) ==
  [ C13_failed_mutator_unchanged |-> (~Ok(e)) => e.post = e.pre,
    C13_argument_unchanged |-> e.argpost = e.arg ]

RefTimesOf(t) == IF t.kind = "I" THEN Bounds(t.ents) ELSE IF t.kind = "P" THEN Times(t.ents) ELSE {}
CountOf(sq, x) == Cardinality({i \in Idx(sq) : sq[i] = x})
SameBag(s1, s2) == Len(s1) = Len(s2) /\ \A i \in Idx(s1) : CountOf(s1, s1[i]) = CountOf(s2, s1[i])

(* ---------------- C05: well-formedness of whatever comes back ----------- *)
(* "trimmed" is checked by the harness flagging untrimmed labels as the     *)
(* label symbol "?untrimmed" which never equals an expected label; here we  *)
(* check order, start < end, disjointness, span; and that a failure is a    *)
(* praatio error.                                                          *)
WFClauses(e) ==
  [ C05_ret_wellformed |-> RetTier(e) => WFTier(e.ret),
    C05_post_wellformed |-> WFTier(e.post),
    \* deleteEntry of an absent entry and dejitter against an empty reference are argument errors for which the
    \* statements only say "raises"; every other failure must be a praatio error
    C05_raises_praatio_error |-> (~Ok(e) /\ e.op # "deleteEntry" /\ ~(e.op = "dejitter" /\ RefTimesOf(e.arg) = {})) => e.pe ]

(* ---------------- C06 crop ---------------------------------------------- *)
Inside(iv, a, b) == a <= iv.s /\ iv.e <= b
Clip(iv, a, b) == Iv(Max2(iv.s, a), Min2(iv.e, b), iv.l)
KeptI(es, a, b, mode) ==
  CASE mode = "strict" -> SelectSeq(es, LAMBDA iv : Inside(iv, a, b))
    [] mode = "lax" -> SelectSeq(es, LAMBDA iv : Overlaps(iv, a, b))
    [] mode = "truncated" -> LET o == SelectSeq(es, LAMBDA iv : Overlaps(iv, a, b)) IN [i \in Idx(o) |-> Clip(o[i], a, b)]
KeptP(ps, a, b) == SelectSeq(ps, LAMBDA p : a <= p.t /\ p.t <= b)

CropClauses(e) ==
  LET a == e.args.a  b == e.args.b  mode == e.args.mode  rebase == e.args.rebase
      isI == e.pre.kind = "I"
      kept == IF isI THEN KeptI(e.pre.ents, a, b, mode) ELSE KeptP(e.pre.ents, a, b)
      d == IF isI THEN Min2(a, FirstStart(kept, a)) ELSE a
      unshLo == IF isI THEN Min2(a, FirstStart(kept, a)) ELSE a
      unshHi == IF isI THEN Max2(b, LastEnd(kept, b)) ELSE b
      shifted == IF isI THEN Shift(kept, -d) ELSE ShiftP(kept, -d)
      keptEnd == IF isI THEN LastEnd(kept, b) ELSE b
  IN [ C06_rejects_degenerate_window |-> (a >= b) => e.st = "ArgumentError",
       C06_never_an_error |-> (a < b) => Ok(e),
       C06_returns_same_kind |-> (a < b /\ Ok(e)) => (IsTier(e.ret) /\ e.ret.kind = e.pre.kind),
       C06_kept_labels |-> (a < b /\ RetTier(e)) => Labels(e.ret.ents) = Labels(kept),
       C06_kept_entries |-> (a < b /\ RetTier(e) /\ ~rebase) => e.ret.ents = kept,
       C06_span_no_rebase |-> (a < b /\ RetTier(e) /\ ~rebase) => (e.ret.lo = unshLo /\ e.ret.hi = unshHi),
       C06_rebased_entries |-> (a < b /\ RetTier(e) /\ rebase /\ A(e)) => e.ret.ents = shifted,
       C06_span_rebased |-> (a < b /\ RetTier(e) /\ rebase /\ A(e)) =>
                               (e.ret.lo = 0 /\ e.ret.hi = (IF kept = <<>> THEN b - a ELSE Max2(b - a, keptEnd - d))) ]

(* ---------------- C07 eraseRegion ---------------------------------------- *)
OverlapSet(es, a, b) == {i \in Idx(es) : Overlaps(es[i], a, b)}

EraseClausesI(e) ==
  LET a == e.args.a  b == e.args.b  mode == e.args.mode  shrink == e.args.shrink
      es == e.pre.ents  lo == e.pre.lo  hi == e.pre.hi
      ov == OverlapSet(es, a, b)
      mustFail == mode = "error" /\ ov # {}
      okc == a < b /\ RetTier(e)
      d == IF shrink THEN b - a ELSE 0
      r == e.ret.ents
      gone(c) == (a <= c /\ c < b) \/ (mode = "categorical" /\ \E i \in ov : es[i].s <= c /\ c < es[i].e)
      \* probe points in the receiver's coordinates
      Q == Bounds(es) \cup {a, b, lo, hi} \cup {x \in Bounds(r) : x < a} \cup {x + d : x \in {y \in Bounds(r) : y >= a}}
      arithOK == A(e) \/ ~shrink
  IN [ C07_rejects_degenerate_region |-> (a >= b) => ~Ok(e),
       C07_error_mode_raises_on_overlap |-> (a < b /\ mustFail) => e.st = "CollisionError",
       C07_never_fails_otherwise |-> (a < b /\ ~mustFail) => Ok(e),
       C07_result_wellformed |-> okc => WFTier(e.ret),
       C07_span |-> (okc /\ arithOK) => (e.ret.lo = lo /\ e.ret.hi = hi - d),
       C07_before_region_unchanged |-> (okc) => \A c \in {q \in Q : q < a} :
                                          LabelAt(r, c) = IF gone(c) THEN "" ELSE LabelAt(es, c),
       C07_after_region_moves_by_length |-> (okc /\ arithOK) => \A c \in {q \in Q : q >= b} :
                                          LabelAt(r, c - d) = IF gone(c) THEN "" ELSE LabelAt(es, c),
       C07_nothing_left_inside |-> (okc /\ ~shrink) => \A c \in {q \in Q : a <= q /\ q < b} : LabelAt(r, c) = "",
       C07_straddler_is_one_interval |-> (okc /\ shrink /\ mode = "truncate" /\ A(e)) =>
             \A i \in Idx(es) : (es[i].s < a /\ es[i].e > b) =>
                 \E j \in Idx(r) : r[j].s = es[i].s /\ r[j].e = es[i].e - d /\ r[j].l = es[i].l,
       C07_entries_before_kept_verbatim |-> okc => \A i \in Idx(es) : (es[i].e < a) => \E j \in Idx(r) : r[j] = es[i],
       C07_entries_after_shifted_verbatim |-> (okc /\ arithOK) => \A i \in Idx(es) : (es[i].s > b) =>
                 \E j \in Idx(r) : r[j] = [es[i] EXCEPT !.s = @ - d, !.e = @ - d] ]

EraseClausesP(e) ==
  LET a == e.args.a  b == e.args.b  shrink == e.args.shrink
      ps == e.pre.ents
      d == IF shrink THEN b - a ELSE 0
      keptP == SelectSeq(ps, LAMBDA p : ~(a <= p.t /\ p.t <= b))
      expect == [i \in Idx(keptP) |-> IF keptP[i].t > b THEN [keptP[i] EXCEPT !.t = @ - d] ELSE keptP[i]]
      okc == a < b /\ RetTier(e)
      arithOK == A(e) \/ ~shrink
  IN [ C07_rejects_degenerate_region |-> (a >= b) => ~Ok(e),
       C07_never_fails_otherwise |-> (a < b) => Ok(e),
       C07_points_in_region_removed |-> okc => Labels(e.ret.ents) = Labels(keptP),
       C07_points_after_move_by_length |-> (okc /\ arithOK) => e.ret.ents = expect,
       C07_span |-> (okc /\ arithOK) => (e.ret.lo = e.pre.lo /\ e.ret.hi = e.pre.hi - d) ]

(* ---------------- C08 insertSpace ----------------------------------------- *)
Straddles(iv, s) == iv.s < s /\ s < iv.e
SpaceExpectI(es, s, d, mode) ==
  Concat([i \in Idx(es) |->
     LET iv == es[i] IN
     IF iv.e <= s THEN <<iv>>
     ELSE IF iv.s >= s THEN <<Iv(iv.s + d, iv.e + d, iv.l)>>
     ELSE CASE mode = "stretch" -> <<Iv(iv.s, iv.e + d, iv.l)>>
            [] mode = "split" -> <<Iv(iv.s, s, iv.l), Iv(s + d, iv.e + d, iv.l)>>
            [] OTHER -> <<iv>>])
SpaceExpectP(ps, s, d) == [i \in Idx(ps) |-> IF ps[i].t <= s THEN ps[i] ELSE Pt(ps[i].t + d, ps[i].l)]

SpaceClauses(e) ==
  LET s == e.args.s  d == e.args.d  mode == e.args.mode
      isI == e.pre.kind = "I"
      es == e.pre.ents
      strad == isI /\ \E i \in Idx(es) : Straddles(es[i], s)
      mustFail == mode = "error" /\ strad
      expect == IF isI THEN SpaceExpectI(es, s, d, mode) ELSE SpaceExpectP(es, s, d)
      okc == RetTier(e) /\ ~mustFail
  IN [ C08_error_mode_rejects_straddler |-> mustFail => ~Ok(e),
       C08_never_fails_otherwise |-> (~mustFail) => Ok(e),
       C08_labels_and_pieces |-> okc => Labels(e.ret.ents) = Labels(expect),
       C08_entries_moved_by_exactly_d |-> (okc /\ A(e)) => e.ret.ents = expect,
       C08_span_lengthened_by_d |-> (okc /\ A(e)) => (e.ret.lo = e.pre.lo /\ e.ret.hi = e.pre.hi + d),
       C08_result_wellformed |-> okc => WFTier(e.ret) ]

(* composition insertSpace(s,d,mode) ; eraseRegion(s, s+d, truncate, shrink)  (op "spaceErase") *)
SpaceEraseClauses(e) ==
  LET es == e.pre.ents
      Q == Bounds(es) \cup {e.pre.lo, e.pre.hi, e.args.s} \cup (IF RetTier(e) THEN Bounds(e.ret.ents) ELSE {})
  IN [ C08_inverse_never_fails |-> Ok(e),
       C08_inverse_restores_label_function |-> (RetTier(e) /\ A(e)) => \A c \in Q : LabelAt(e.ret.ents, c) = LabelAt(es, c),
       C08_inverse_restores_span |-> (RetTier(e) /\ A(e)) => (e.ret.lo = e.pre.lo /\ e.ret.hi = e.pre.hi),
       C08_inverse_piece_count |-> RetTier(e) => Len(e.ret.ents) <= Len(es) ]

(* ---------------- C09 editTimestamps / appendTier ------------------------- *)
EditExpectI(es, o) ==
  Concat([i \in Idx(es) |-> IF es[i].e + o <= 0 THEN <<>> ELSE <<Iv(Max2(es[i].s + o, 0), es[i].e + o, es[i].l)>>])
EditExpectP(ps, o) == Concat([i \in Idx(ps) |-> IF ps[i].t + o < 0 THEN <<>> ELSE <<Pt(ps[i].t + o, ps[i].l)>>])

EditClauses(e) ==
  LET o == e.args.o  mode == e.args.mode
      isI == e.pre.kind = "I"
      es == e.pre.ents  lo == e.pre.lo  hi == e.pre.hi
      leaves == IF isI THEN \E i \in Idx(es) : es[i].s + o < lo \/ es[i].e + o > hi
                       ELSE \E i \in Idx(es) : es[i].t + o < lo \/ es[i].t + o > hi
      \* an entry landing exactly on the old span's edge: with inexact (non-dyadic) float arithmetic the sum may
      \* come out one ulp beyond it, so either report is accepted there
      onEdge == ~e.exactfp /\ o # 0 /\
                (IF isI THEN \E i \in Idx(es) : es[i].s + o = lo \/ es[i].e + o = hi
                        ELSE \E i \in Idx(es) : es[i].t + o = lo \/ es[i].t + o = hi)
      expect == IF isI THEN EditExpectI(es, o) ELSE EditExpectP(es, o)
      newLo == IF isI THEN Min2(lo, FirstStart(expect, lo)) ELSE MinOf({lo} \cup Times(expect))
      newHi == IF isI THEN Max2(hi, LastEnd(expect, hi)) ELSE MaxOf({hi} \cup Times(expect))
      mustRaise == mode = "error" /\ leaves
      okc == RetTier(e) /\ A(e)
  IN [ C09_error_mode_raises_when_leaving_span |-> (A(e) /\ mustRaise) => ~Ok(e),
       C09_no_exception_otherwise |-> (A(e) /\ ~mustRaise /\ ~(mode = "error" /\ onEdge)) => Ok(e),
       C09_warning_iff_leaving_span |-> (A(e) /\ Ok(e) /\ ~(mode = "warning" /\ onEdge)) => (e.out <=> (mode = "warning" /\ leaves)),
       C09_entries_moved_by_offset |-> okc => e.ret.ents = expect,
       C09_span_grows_never_shrinks |-> okc => (e.ret.lo = newLo /\ e.ret.hi = newHi),
       C09_result_wellformed |-> RetTier(e) => WFTier(e.ret) ]

AppendClauses(e) ==
  LET a == e.pre  b == e.arg
      same == a.kind = b.kind
      shifted == IF a.kind = "I" THEN Shift(b.ents, a.hi) ELSE ShiftP(b.ents, a.hi)
      okc == RetTier(e) /\ A(e)
  IN [ C09_append_type_mismatch_rejected |-> (~same) => ~Ok(e),
       C09_append_never_fails_otherwise |-> same => Ok(e),
       \* a point of B at time 0 coincides with a point of A at A's end: their relative order is not constrained
       C09_append_entries |-> (same /\ okc) => (IF a.kind = "I" THEN e.ret.ents = a.ents \o shifted
                                                  ELSE SameBag(e.ret.ents, a.ents \o shifted) /\ WFTier(e.ret)),
       C09_append_labels |-> (same /\ RetTier(e)) => SameBag(Labels(e.ret.ents), Labels(a.ents) \o Labels(b.ents)),
       C09_append_span |-> (same /\ okc) => (e.ret.lo = a.lo /\ e.ret.hi = a.hi + b.hi),
       \* "A's entries unchanged": also in A itself, so that a second append to the same A starts from the same A
       C09_append_leaves_both_operands_as_they_were |-> e.post = e.pre /\ e.argpost = e.arg ]

(* shift by +x then -x (op "editRoundTrip"): restores every entry when nothing was clipped *)
EditRoundTripClauses(e) ==
  [ C09_shift_roundtrip_restores_entries |-> (RetTier(e) /\ A(e)) => e.ret.ents = e.pre.ents,
    C09_shift_roundtrip_never_fails |-> Ok(e) ]

(* ---------------- C11 insertEntry / deleteEntry --------------------------- *)
JoinL(ls, sep) == IF ls = <<>> THEN "" ELSE FoldLeft(LAMBDA acc, x : acc \o sep \o x, Head(ls), Tail(ls))

InsertClausesI(e) ==
  LET x == e.args.x  cmode == e.args.cmode  rmode == e.args.rmode
      es == e.pre.ents
      badopt == cmode \notin {"error", "replace", "merge"} \/ rmode \notin {"silence", "warning", "error"}
      degenerate == x.s >= x.e \/ badopt              \* an invalid option value is rejected like any other bad argument
      coll == {i \in Idx(es) : Overlaps(es[i], x.s, x.e)}
      others == SelectSeq(es, LAMBDA iv : ~Overlaps(iv, x.s, x.e))
      colliding == SelectSeq(es, LAMBDA iv : Overlaps(iv, x.s, x.e))
      \* labels in time order: entries sorted by start; the new entry is placed by its start (ties: either side)
      before == SelectSeq(colliding, LAMBDA iv : iv.s < x.s)
      after == SelectSeq(colliding, LAMBDA iv : iv.s > x.s)
      tie == SelectSeq(colliding, LAMBDA iv : iv.s = x.s)
      lab1 == JoinL(Labels(before) \o <<x.l>> \o Labels(tie) \o Labels(after), "-")
      lab2 == JoinL(Labels(before) \o Labels(tie) \o <<x.l>> \o Labels(after), "-")
      ext(l) == Iv(MinOf({x.s} \cup {es[i].s : i \in coll}), MaxOf({x.e} \cup {es[i].e : i \in coll}), l)
      expected(n) == SortIv(Append(others, n))
      post == e.post.ents
  IN [ C11_degenerate_entry_rejected |-> degenerate => (~Ok(e)),
       C13_invalid_option_value_rejected |-> badopt => ~Ok(e),
       C11_no_collision_adds_entry |-> (~degenerate /\ coll = {}) => (Ok(e) /\ post = expected(x)),
       C11_error_mode_raises_collision |-> (~degenerate /\ coll # {} /\ cmode = "error") => e.st = "CollisionError",
       C11_error_mode_leaves_the_tier_as_it_was |-> (~degenerate /\ coll # {} /\ cmode = "error") => e.post = e.pre,
       C11_replace_removes_exactly_colliders |-> (~degenerate /\ coll # {} /\ cmode = "replace") => (Ok(e) /\ post = expected(x)),
       C11_merge_joint_extent_and_labels |-> (~degenerate /\ coll # {} /\ cmode = "merge") =>
                                               (Ok(e) /\ (post = expected(ext(lab1)) \/ post = expected(ext(lab2)))),
       C11_span_is_hull |-> (~degenerate /\ Ok(e)) => (e.post.lo = Min2(e.pre.lo, x.s) /\ e.post.hi = Max2(e.pre.hi, x.e)),
       C11_sorted_after |-> Ok(e) => WFTier(e.post),
       INFO_warning_iff_collision |-> Ok(e) => (e.out <=> (rmode = "warning" /\ coll # {})) ]

InsertClausesP(e) ==
  LET x == e.args.x  cmode == e.args.cmode  rmode == e.args.rmode
      ps == e.pre.ents
      badopt == cmode \notin {"error", "replace", "merge"} \/ rmode \notin {"silence", "warning", "error"}
      coll == {i \in Idx(ps) : ps[i].t = x.t}
      others == SelectSeq(ps, LAMBDA p : p.t # x.t)
      oldl == JoinL(Labels(SelectSeq(ps, LAMBDA p : p.t = x.t)), "-")
      expected(n) == SortPt(Append(others, n))
      post == e.post.ents
  IN [ C13_invalid_option_value_rejected |-> badopt => ~Ok(e),
       C11_no_collision_adds_entry |-> (~badopt /\ coll = {}) => (Ok(e) /\ post = expected(x)),
       C11_error_mode_raises_collision |-> (~badopt /\ coll # {} /\ cmode = "error") => e.st = "CollisionError",
       \* the span grows "to contain the new entry": an entry that was refused is not in the tier, and nothing grows for it
       C11_error_mode_leaves_the_tier_as_it_was |-> (~badopt /\ coll # {} /\ cmode = "error") => e.post = e.pre,
       C11_replace_removes_exactly_colliders |-> (~badopt /\ coll # {} /\ cmode = "replace") => (Ok(e) /\ post = expected(x)),
       C11_merge_joint_extent_and_labels |-> (~badopt /\ coll # {} /\ cmode = "merge") => (Ok(e) /\ post = expected(Pt(x.t, oldl \o "-" \o x.l))),
       C11_span_is_hull |-> Ok(e) => (e.post.lo = Min2(e.pre.lo, x.t) /\ e.post.hi = Max2(e.pre.hi, x.t)),
       C11_sorted_after |-> Ok(e) => WFTier(e.post),
       INFO_warning_iff_collision |-> Ok(e) => (e.out <=> (rmode = "warning" /\ coll # {})) ]

DeleteClauses(e) ==
  LET x == e.args.x  es == e.pre.ents
      present == \E i \in Idx(es) : es[i] = x
      i0 == MinOf({i \in Idx(es) : es[i] = x})
  IN [ C11_delete_absent_raises |-> (~present) => ~Ok(e),
       C11_delete_removes_exactly_that_entry |-> present =>
            (Ok(e) /\ e.post.ents = SubSeq(es, 1, i0 - 1) \o SubSeq(es, i0 + 1, Len(es))),
       C11_delete_keeps_span |-> (e.post.lo = e.pre.lo /\ e.post.hi = e.pre.hi) ]

(* ---------------- C10 set operations --------------------------------------- *)
(* labelled time of an entry list, sampled at probe points *)
ProbeSet(e) == Bounds(e.pre.ents) \cup Bounds(e.arg.ents) \cup (IF RetTier(e) THEN Bounds(e.ret.ents) ELSE {})

DifferenceClauses(e) ==
  LET a == e.pre.ents  b == e.arg.ents  Q == ProbeSet(e)
  IN [ C10_difference_never_fails |-> Ok(e),
       C10_difference_labelled_where_A_and_not_B |-> RetTier(e) => \A c \in Q :
            LabelAt(e.ret.ents, c) = IF Covered(a, c) /\ ~Covered(b, c) THEN LabelAt(a, c) ELSE "",
       C10_difference_wellformed |-> RetTier(e) => WFTier(e.ret) ]

\* one entry per overlapping pair (A-interval, B-interval), labelled "a-b", covering exactly the overlap
PairList(a, b) == Concat([j \in Idx(b) |-> Concat([i \in Idx(a) |->
                     IF Overlaps(a[i], b[j].s, b[j].e)
                     THEN <<Iv(Max2(a[i].s, b[j].s), Min2(a[i].e, b[j].e), a[i].l \o "-" \o b[j].l)>> ELSE <<>>])])
IntersectionClauses(e) ==
  LET a == e.pre.ents  b == e.arg.ents  Q == ProbeSet(e)
  IN [ C10_intersection_never_fails |-> Ok(e),
       C10_intersection_labelled_where_both |-> RetTier(e) => \A c \in Q : Covered(e.ret.ents, c) = (Covered(a, c) /\ Covered(b, c)),
       C10_intersection_one_entry_per_pair |-> RetTier(e) => e.ret.ents = SortIv(PairList(a, b)),
       C10_intersection_wellformed |-> RetTier(e) => WFTier(e.ret) ]

\* connected components of the overlap relation among the entries of A and B together
AllEnts(e) == e.pre.ents \o e.arg.ents
UnionClausesI(e) ==
  LET a == e.pre.ents  b == e.arg.ents  Q == ProbeSet(e)  r == e.ret.ents
      all == AllEnts(e)
      \* entries (of either operand) lying inside result entry j, in time order
      inside(j) == SortIv(SelectSeq(all, LAMBDA iv : r[j].s <= iv.s /\ iv.e <= r[j].e))
      \* label multiset check: the result label is some time-ordered join of the labels inside it.
      \* Entries with equal start may appear in either order, so compare as bags of atoms when ties exist.
      starts(j) == [i \in Idx(inside(j)) |-> inside(j)[i].s]
      hasTie(j) == \E i \in 1..(Len(inside(j)) - 1) : starts(j)[i] = starts(j)[i + 1]
  IN [ C10_union_never_fails |-> Ok(e),
       C10_union_labelled_where_either |-> RetTier(e) => \A c \in Q : Covered(r, c) = (Covered(a, c) \/ Covered(b, c)),
       C10_union_every_entry_inside_one_result |-> RetTier(e) => \A i \in Idx(all) : \E j \in Idx(r) : r[j].s <= all[i].s /\ all[i].e <= r[j].e,
       C10_union_overlapping_entries_fused |-> RetTier(e) => \A j \in Idx(r) :
            \* a result entry is either a verbatim entry or the hull of >= 2 entries chained by overlap
            /\ r[j].s = inside(j)[1].s
            /\ r[j].e = MaxOf({inside(j)[i].e : i \in Idx(inside(j))}),
       C10_union_labels_joined_in_time_order |-> RetTier(e) => \A j \in Idx(r) :
            hasTie(j) \/ r[j].l = JoinL(Labels(inside(j)), "-"),
       C10_union_wellformed |-> RetTier(e) => WFTier(e.ret) ]

UnionClausesP(e) ==
  LET a == e.pre.ents  b == e.arg.ents  r == e.ret.ents
      \* an operand that already holds several points at one time (possible after dejitter or appendTier) is outside what
      \* the statement describes ("labels of coinciding points joined" refers to a point of A meeting a point of B)
      distinct == (\A i, j \in Idx(a) : i # j => a[i].t # a[j].t) /\ (\A i, j \in Idx(b) : i # j => b[i].t # b[j].t)
  IN [ C10_union_never_fails |-> Ok(e),
       C10_point_union_times |-> RetTier(e) => Times(r) = Times(a) \cup Times(b),
       C10_point_union_one_point_per_time |-> (RetTier(e) /\ distinct) => \A i, j \in Idx(r) : i # j => r[i].t # r[j].t,
       C10_point_union_labels_joined |-> (RetTier(e) /\ distinct) => \A j \in Idx(r) :
            LET la == Labels(SelectSeq(a, LAMBDA p : p.t = r[j].t))
                lb == Labels(SelectSeq(b, LAMBDA p : p.t = r[j].t))
            IN r[j].l = JoinL(la \o lb, "-"),
       C10_union_wellformed |-> RetTier(e) => WFTier(e.ret) ]

MergeLabelsClauses(e) ==
  LET a == e.pre.ents  b == e.arg.ents
      keep == SelectSeq(a, LAMBDA iv : \E j \in Idx(b) : Overlaps(b[j], iv.s, iv.e))
      lab(iv) == iv.l \o "(" \o JoinL(Labels(SelectSeq(b, LAMBDA y : Overlaps(y, iv.s, iv.e))), ",") \o ")"
      expect == [i \in Idx(keep) |-> Iv(keep[i].s, keep[i].e, lab(keep[i]))]
  IN [ C10_mergeLabels_never_fails |-> Ok(e),
       C10_mergeLabels_keeps_overlapping_A_intervals |-> RetTier(e) => e.ret.ents = expect ]

(* ---------------- C14 dejitter / morph ---------------------------------------- *)
RefTimes(t) == IF t.kind = "I" THEN Bounds(t.ents) ELSE Times(t.ents)
DistTo(refs, v) == MinOf({AbsV(r - v) : r \in refs})
\* v may become w: w is a nearest reference within D, or w = v when no reference is within D
SnapOK(refs, v, w, D, exact) ==
  IF refs # {} /\ DistTo(refs, v) <= D
  THEN \/ (w \in refs /\ AbsV(w - v) = DistTo(refs, v))
       \* exactly maxDifference away, computed in inexact (non-dyadic) floating point: either outcome
       \/ (~exact /\ DistTo(refs, v) = D /\ w = v)
  ELSE w = v

DejitterClauses(e) ==
  LET D == e.args.D  refs == RefTimes(e.arg)  es == e.pre.ents  isI == e.pre.kind = "I"
      r == e.ret.ents
      \* the times v may legitimately become (exactly maxDifference away under inexact arithmetic: moved or not)
      snapped(v) == IF refs # {} /\ DistTo(refs, v) <= D
                    THEN {w \in refs : AbsV(w - v) = DistTo(refs, v)} \cup (IF ~e.exactfp /\ DistTo(refs, v) = D THEN {v} ELSE {})
                    ELSE {v}
      \* could every choice of nearest references yield an ill-formed tier? then raising is required; if some
      \* choice is well-formed the call may return it (ties are loose)
      mustCollapse == isI /\ \E i \in Idx(es) : \A s2 \in snapped(es[i].s), e2 \in snapped(es[i].e) : s2 >= e2
      \* points that end up at the same time have no order in time; match them up as a bag in that case
      coincide == ~isI /\ \E i \in 1..(Len(r) - 1) : r[i].t = r[i + 1].t
      x == e.exactfp
  IN [ C14_count_order_labels_unchanged |-> (RetTier(e) /\ A(e)) =>
            (IF coincide THEN SameBag(Labels(r), Labels(es)) ELSE Labels(r) = Labels(es)),
       C14_moved_iff_within_maxDifference |-> (RetTier(e) /\ A(e) /\ Len(r) = Len(es) /\ ~coincide) => \A i \in Idx(es) :
            IF isI THEN SnapOK(refs, es[i].s, r[i].s, D, x) /\ SnapOK(refs, es[i].e, r[i].e, D, x)
                   ELSE SnapOK(refs, es[i].t, r[i].t, D, x),
       C14_moved_points_bag |-> (RetTier(e) /\ A(e) /\ Len(r) = Len(es) /\ coincide) =>
            \A j \in Idx(r) : \E i \in Idx(es) : es[i].l = r[j].l /\ SnapOK(refs, es[i].t, r[j].t, D, x),
       C14_never_returns_illformed |-> RetTier(e) => WFTier(e.ret),
       C14_collapse_raises |-> (A(e) /\ mustCollapse) => ~Ok(e) ]

MorphClauses(e) ==
  LET es == e.pre.ents  tg == e.arg.ents  r == e.ret.ents
      sel(l) == CASE e.args.filter = "all" -> TRUE [] e.args.filter = "none" -> FALSE [] OTHER -> l = e.args.filter
      n == Len(es)
      okc == RetTier(e) /\ A(e) /\ Len(r) = n
  IN [ C14_morph_mismatched_counts_rejected |-> (Len(es) # Len(tg)) => ~Ok(e),
       C14_morph_equal_counts_succeeds |-> (Len(es) = Len(tg)) => Ok(e),
       C14_morph_labels_kept |-> (RetTier(e)) => Labels(r) = Labels(es),
       C14_morph_durations |-> (okc /\ n = Len(tg)) => \A i \in 1..n :
            r[i].e - r[i].s = IF sel(es[i].l) THEN tg[i].e - tg[i].s ELSE es[i].e - es[i].s,
       C14_morph_gaps_preserved |-> okc => \A i \in 1..(n - 1) : r[i + 1].s - r[i].e = es[i + 1].s - es[i].e,
       C14_morph_first_start_preserved |-> (okc /\ n > 0) => r[1].s = es[1].s,
       C14_morph_trailing_gap_preserved |-> (okc /\ n > 0) => e.ret.hi - r[n].e = e.pre.hi - es[n].e,
       C14_morph_lo_kept |-> okc => e.ret.lo = e.pre.lo,
       \* nothing to morph: the span (whose end is "the trailing gap" of no interval) stays
       C14_morph_of_empty_tiers_keeps_the_span |-> (okc /\ n = 0) => e.ret.hi = e.pre.hi ]

(* ---------------- constructors (C05) --------------------------------------------- *)
\* e.args.raw: the entry list handed to IntervalTier(...) / PointTier(...) in any order, possibly overlapping or degenerate;
\* e.args.lo/hi: the minT/maxT arguments (labels may be padded with white space by the harness: they must come back trimmed)
ConstructClauses(e) ==
  LET raw == e.args.raw  isI == e.args.kind = "I"
      valid == isI => (/\ \A i \in Idx(raw) : raw[i].s < raw[i].e
                       /\ \A i, j \in Idx(raw) : i # j => ~Overlaps(raw[i], raw[j].s, raw[j].e))
      sorted == IF isI THEN SortIv(raw) ELSE SortPt(raw)
      lo == IF isI THEN MinOf({e.args.lo} \cup {raw[i].s : i \in Idx(raw)}) ELSE MinOf({e.args.lo} \cup Times(raw))
      hi == IF isI THEN MaxOf({e.args.hi} \cup {raw[i].e : i \in Idx(raw)}) ELSE MaxOf({e.args.hi} \cup Times(raw))
  IN [ C05_constructor_rejects_illformed_entries |-> (~valid) => (~Ok(e) /\ e.pe),
       C05_constructor_accepts_wellformed_entries |-> valid => Ok(e),
       C05_constructor_sorts_and_keeps_entries |-> (valid /\ RetTier(e)) =>
            (IF isI THEN e.ret.ents = sorted ELSE SameBag(e.ret.ents, sorted) /\ WFTier(e.ret)),
       C05_constructor_span_is_hull |-> (valid /\ RetTier(e)) => (e.ret.lo = lo /\ e.ret.hi = hi) ]

(* ---------------- new() ------------------------------------------------------ *)
NewClauses(e) == [ C13_new_is_equal_copy |-> RetTier(e) /\ e.ret = e.pre ]

(* ---------------- dispatcher --------------------------------------------------- *)
FailsOf(r) == {k \in DOMAIN r : ~r[k]}

IsCopyOp(op) == op \in {"crop", "eraseRegion", "insertSpace", "editTimestamps", "appendTier", "union", "difference",
                         "intersection", "mergeLabels", "dejitter", "morph", "new", "spaceErase", "editRoundTrip", "construct"}

OpClauses(e) ==
  CASE e.op = "crop" -> FailsOf(CropClauses(e))
    [] e.op = "eraseRegion" -> IF e.pre.kind = "I" THEN FailsOf(EraseClausesI(e)) ELSE FailsOf(EraseClausesP(e))
    [] e.op = "insertSpace" -> FailsOf(SpaceClauses(e))
    [] e.op = "spaceErase" -> FailsOf(SpaceEraseClauses(e))
    [] e.op = "editTimestamps" -> FailsOf(EditClauses(e))
    [] e.op = "editRoundTrip" -> FailsOf(EditRoundTripClauses(e))
    [] e.op = "appendTier" -> FailsOf(AppendClauses(e))
    [] e.op = "insertEntry" -> IF e.pre.kind = "I" THEN FailsOf(InsertClausesI(e)) ELSE FailsOf(InsertClausesP(e))
    [] e.op = "deleteEntry" -> FailsOf(DeleteClauses(e))
    [] e.op = "difference" -> FailsOf(DifferenceClauses(e))
    [] e.op = "intersection" -> FailsOf(IntersectionClauses(e))
    [] e.op = "union" -> IF e.pre.kind = "I" THEN FailsOf(UnionClausesI(e)) ELSE FailsOf(UnionClausesP(e))
    [] e.op = "mergeLabels" -> FailsOf(MergeLabelsClauses(e))
    [] e.op = "dejitter" -> FailsOf(DejitterClauses(e))
    [] e.op = "morph" -> FailsOf(MorphClauses(e))
    [] e.op = "new" -> FailsOf(NewClauses(e))
    [] e.op = "construct" -> FailsOf(ConstructClauses(e))
    [] OTHER -> {"UNKNOWN_OP"}

Fails(e) == OpClauses(e)
            \cup (IF IsCopyOp(e.op) THEN FailsOf(CopyOpClauses(e)) ELSE FailsOf(MutatorClauses(e)))
            \cup FailsOf(WFClauses(e))
=============================================================================
