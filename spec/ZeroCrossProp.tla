--------------------------- MODULE ZeroCrossProp ---------------------------
(***************************************************************************)
(* C18 clauses.  Times are integer counts of 1/M of a sample period; a     *)
(* recording is its sequence of sample VALUES (only signs and magnitudes   *)
(* matter).  Events: findZc, tgZc, splice.                                 *)
(***************************************************************************)
EXTENDS Integers, Sequences, FiniteSets, SequencesExt

FailsOfZ(r) == {k \in DOMAIN r : ~r[k]}
SignOf(x) == IF x > 0 THEN 1 ELSE IF x < 0 THEN -1 ELSE 0
\* sample position i (0-based) of recording s is a genuine crossing: the sample is zero or differs in sign from a neighbour
Genuine(s, i) == /\ i >= 0 /\ i < Len(s)
                 /\ \/ s[i + 1] = 0
                    \/ (i >= 1 /\ SignOf(s[i]) # SignOf(s[i + 1]))
                    \/ (i + 2 <= Len(s) /\ SignOf(s[i + 2]) # SignOf(s[i + 1]))
OkZ(e) == e.st = "ok"

FindZcClauses(e) ==
  LET M == e.M  N == Len(e.samples)  onTarget == e.args.t % M = 0  r == e.ret IN
  [ C18_search_terminates |-> ~e.hung,
    C18_step_too_small_rejected |-> (e.args.step < 2 * M) => e.st = "ArgumentError",
    C18_only_documented_errors |-> (~OkZ(e) /\ ~e.hung) => e.st \in {"FindZeroCrossingError", "ArgumentError"},
    C18_result_within_recording |-> OkZ(e) => (r >= 0 /\ r <= N * M),
    C18_result_on_sample_position_when_target_is |-> (OkZ(e) /\ onTarget) => r % M = 0,
    C18_result_is_genuine_crossing |-> (OkZ(e) /\ onTarget /\ r >= 0 /\ r % M = 0) => Genuine(e.samples, r \div M) ]

(* tgBoundariesToZeroCrossings: pre/ret are sequences of tiers [kind, name, times (Seq of Seq of time), labels] *)
TgZcClauses(e) ==
  LET M == e.M IN
  [ \* the search may give up with its documented error (completeness is not claimed), and both ends of an interval (or the
    \* end of one and the start of the next) may snap to the same crossing, which the tier constructor rejects instead of
    \* returning an ill-formed tier (e.collapse: recomputed boundary by boundary by the harness); nothing else may go wrong
    C18_tgzc_succeeds |-> OkZ(e) \/ e.st = "FindZeroCrossingError" \/ (e.st = "TextgridStateError" /\ e.collapse),
    C18_tgzc_tier_order_and_names_kept |-> OkZ(e) => [i \in 1..Len(e.ret) |-> <<e.ret[i].kind, e.ret[i].name>>] = [i \in 1..Len(e.pre) |-> <<e.pre[i].kind, e.pre[i].name>>],
    C18_tgzc_entry_counts_and_labels_kept |-> (OkZ(e) /\ Len(e.ret) = Len(e.pre)) => \A i \in 1..Len(e.pre) :
        IF e.pre[i].kind = "I" THEN e.ret[i].labels = e.pre[i].labels
        ELSE Len(e.ret[i].labels) = Len(e.pre[i].labels) /\ \A x \in 1..Len(e.pre[i].labels) :
               Cardinality({y \in 1..Len(e.pre[i].labels) : e.pre[i].labels[y] = e.pre[i].labels[x]})
               = Cardinality({y \in 1..Len(e.ret[i].labels) : e.ret[i].labels[y] = e.pre[i].labels[x]}),
    \* (a tier type whose adjustment is switched off - e.args.adjP / adjI - is handed back as it was)
    C18_tgzc_every_timestamp_is_a_crossing |-> (OkZ(e) /\ Len(e.ret) = Len(e.pre)) => \A i \in 1..Len(e.ret) :
        IF (e.ret[i].kind = "P" /\ e.args.adjP) \/ (e.ret[i].kind = "I" /\ e.args.adjI)
        THEN \A j \in 1..Len(e.ret[i].times) : e.ret[i].times[j] % M = 0 /\ Genuine(e.samples, e.ret[i].times[j] \div M)
        ELSE e.ret[i].times = e.pre[i].times ]

(* audioSplice: audio and splice are sequences of sample ids; tg tiers [kind, name, ents (Seq of [s, e, l] / [t, l])] *)
SpliceClauses(e) ==
  LET M == e.M  a == e.audio  ra == e.retaudio
      tier == e.rettg.tiers[e.args.tier]
      news == {i \in 1..Len(tier.ents) : tier.ents[i].l = e.args.label}
      pretier == e.pretg.tiers[e.args.tier]
      cutAt == e.args.start
       \* with alignment to zero crossings the search may give up, or both ends of a replaced region may snap to the
       \* same crossing (rejected as an empty region): the statement describes what is returned, not these cases
       \* ... or a boundary that is moved to its crossing lands on a point that is already there (CollisionError from the
       \* re-insertion in error mode)
  IN [ C18_splice_succeeds |-> OkZ(e) \/ (e.args.align /\ e.st \in {"FindZeroCrossingError", "ArgumentError", "CollisionError"}),
       C18_splice_durations_agree_within_a_sample |-> OkZ(e) => (e.rettg.hi - Len(ra) * M <= M /\ Len(ra) * M - e.rettg.hi <= M),
       C18_splice_exactly_one_new_interval |-> OkZ(e) => Cardinality(news) = 1,
       C18_splice_new_interval_covers_inserted_audio |-> (OkZ(e) /\ Cardinality(news) = 1 /\ ~e.args.align) =>
            LET n == tier.ents[CHOOSE i \in news : TRUE] IN
            /\ n.s % M = 0 /\ n.e % M = 0 /\ n.e \div M <= Len(ra)
            /\ SubSeq(ra, n.s \div M + 1, n.e \div M) = e.splice,
       C18_splice_earlier_entries_unchanged |-> (OkZ(e) /\ ~e.args.align) => \A t \in 1..Len(e.pretg.tiers) :
            \A i \in 1..Len(e.pretg.tiers[t].ents) :
               LET x == e.pretg.tiers[t].ents[i]
                   endsBefore == IF e.pretg.tiers[t].kind = "I" THEN x.e <= cutAt ELSE x.t < cutAt
               IN endsBefore => \E j \in 1..Len(e.rettg.tiers[t].ents) : e.rettg.tiers[t].ents[j] = x,
       C18_splice_later_entries_keep_labels |-> OkZ(e) => \A t \in 1..Len(e.pretg.tiers) :
            LET old == [i \in 1..Len(e.pretg.tiers[t].ents) |-> e.pretg.tiers[t].ents[i].l]
                new == [i \in 1..Len(e.rettg.tiers[t].ents) |-> e.rettg.tiers[t].ents[i].l]
                kept == SelectSeq(new, LAMBDA l : l # e.args.label)
            \* every surviving old label is still there in order (entries inside a replaced region may disappear)
            IN IF e.args.hasstop THEN \A i \in 1..Len(kept) : \E j \in 1..Len(old) : old[j] = kept[i]
               ELSE kept = old ]

ZcFails(e) == CASE e.op = "findZc" -> FailsOfZ(FindZcClauses(e))
                [] e.op = "tgZc" -> FailsOfZ(TgZcClauses(e))
                [] e.op = "splice" -> FailsOfZ(SpliceClauses(e))
                [] OTHER -> {"UNKNOWN_OP"}
=============================================================================
