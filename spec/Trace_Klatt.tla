----------------------------- MODULE Trace_Klatt -----------------------------
(* Trace validation for C19 events (KlattProp) and C20 events (SeriesProp). *)
EXTENDS KlattProp, SeriesProp, TLC, TLCExt, Json, IOUtils
Events == ndJsonDeserialize(IOEnv.TRACE_FILE)
FailsE(e) == IF e.fam = "series" THEN SeriesFails(e) ELSE KlattFails(e)
VARIABLE l
TraceInit == l = 1
TraceNext == /\ l <= Len(Events)
             /\ LET e == Events[l]
                    f == FailsE(e)
                IN IF f = {} THEN TRUE ELSE PrintT(<<"VERDICT", e.id, f>>)
             /\ l' = l + 1
TraceSpec == TraceInit /\ [][TraceNext]_l
AllConsumed == TLCGet("stats").diameter - 1 = Len(Events)
=============================================================================
