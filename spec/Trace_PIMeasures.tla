-------------------------- MODULE Trace_PIMeasures --------------------------
(* Trace validation of recorded generatePIMeasures calls against PIMeasures' clauses. *)
EXTENDS Integers, Sequences, FiniteSets, TLC, TLCExt, Json, IOUtils
Events == ndJsonDeserialize(IOEnv.TRACE_FILE)
P == INSTANCE PIMeasures WITH Cells <- 0, VMax <- 0, MaxData <- 0, Emit <- FALSE, c <- <<>>
VARIABLE l
TraceInit == l = 1
TraceNext == /\ l <= Len(Events)
             /\ LET e == Events[l]
                    f == P!PIFails(e)
                IN IF f = {} THEN TRUE ELSE PrintT(<<"VERDICT", e.id, f>>)
             /\ l' = l + 1
TraceSpec == TraceInit /\ [][TraceNext]_l
AllConsumed == TLCGet("stats").diameter - 1 = Len(Events)
=============================================================================
