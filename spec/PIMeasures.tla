----------------------------- MODULE PIMeasures -----------------------------
(***************************************************************************)
(* Growth beyond the listed properties (X08):                              *)
(* pitch_and_intensity.generatePIMeasures - the pipeline that opens a      *)
(* TextGrid without its blank intervals, selects for every labelled        *)
(* interval the samples with start <= t <= end, and reduces them: pitch    *)
(* measures of the f0 column (zeros removed, optional median filter) or    *)
(* the rms of the non-zero intensity column (0 when nothing is left).      *)
(* The reductions themselves are C20's (SeriesProp!PitchClauses,           *)
(* RmsClauses) and the selection is C15's; what is new is the composition: *)
(* one row per labelled interval, in tier order, blank intervals skipped,  *)
(* the right column reduced, the zero filter on, both normalisations at    *)
(* once rejected, a point tier rejected.                                   *)
(*                                                                         *)
(* Times are in half cells: interval ends are even, samples may sit on any *)
(* half cell, so that samples on, between and outside boundaries all occur.*)
(* TLC enumerates the whole case universe (Init; there is no transition)   *)
(* and emits it; each case is run on the real function through a saved     *)
(* TextGrid file and judged by PIClauses (Trace_PIMeasures).               *)
(***************************************************************************)
EXTENDS SeriesProp, TLC, Json
CONSTANTS Cells, VMax, MaxData, Emit
VARIABLE c
LabelsP == {"", "a", "b"}
Samples == [t : 0..(2 * Cells), f0 : 0..VMax]
DataSeqs == UNION { { d \in [1..n -> Samples] : \A i \in 1..(n - 1) : d[i].t <= d[i + 1].t } : n \in 0..MaxData }
Ivs == { iv \in [s : {2 * k : k \in 0..Cells}, e : {2 * k : k \in 0..Cells}, lab : LabelsP] : iv.s < iv.e }
Tiers == {<<>>} \cup { <<a>> : a \in Ivs } \cup { <<p[1], p[2]>> : p \in { q \in Ivs \X Ivs : q[2].s >= q[1].e } }
\* the intensity column is a fixed permutation of the f0 column, so that reducing the wrong column shows
IntOf(v) == (v + 1) % (VMax + 1)
Init == c \in [data : DataSeqs, ivs : Tiers, doPitch : BOOLEAN, window : {-1, 3}]
Next == UNCHANGED c

\* ---- what the caller relies on; e = [data (rows t, f0, in), ivs, kind, doPitch, window, glob, loc, st, ret]
Labelled(e) == SelectSeq(e.ivs, LAMBDA iv : iv.lab # "")
Inside(e, iv) == SelectSeq(e.data, LAMBDA d : iv.s <= d.t /\ d.t <= iv.e)
F0s(e, iv) == [i \in 1..Len(Inside(e, iv)) |-> Inside(e, iv)[i].f0]
Ints(e, iv) == SelectSeq([i \in 1..Len(Inside(e, iv)) |-> Inside(e, iv)[i].in], LAMBDA v : v # 0)
Plain(e) == ~e.glob /\ e.loc = 0 /\ e.kind = "I"
PitchRowOK(e, iv, row) ==
  Len(row) = 6 /\ FailsOfS(PitchClauses([xs |-> F0s(e, iv), args |-> [window |-> e.window, filterZero |-> TRUE], ret |-> row, scale |-> 1, st |-> "ok"])) = {}
IntRowOK(e, iv, row) ==
  Len(row) = 1 /\ (IF Ints(e, iv) = <<>> THEN row[1] = 0 ELSE FailsOfS(RmsClauses([xs |-> Ints(e, iv), ret |-> row[1], st |-> "ok"])) = {})
PIClauses(e) ==
  LET L == Labelled(e) IN
  [ X08_double_normalisation_rejected |-> (e.glob /\ e.loc > 0) <=> (e.st = "NormalizationException"),
    X08_point_tier_rejected |-> (e.kind = "P" /\ ~(e.glob /\ e.loc > 0)) => e.st = "IncompatibleTierError",
    X08_defined_for_every_interval_tier |-> Plain(e) => e.st = "ok",
    X08_one_row_per_labelled_interval_in_order |-> (Plain(e) /\ e.st = "ok") => Len(e.ret) = Len(L),
    X08_pitch_rows_are_the_measures_of_the_f0_inside |-> (Plain(e) /\ e.st = "ok" /\ e.doPitch /\ Len(e.ret) = Len(L)) =>
        \A i \in 1..Len(L) : PitchRowOK(e, L[i], e.ret[i]),
    X08_intensity_rows_are_the_rms_of_the_nonzero_intensity_inside |-> (Plain(e) /\ e.st = "ok" /\ ~e.doPitch /\ Len(e.ret) = Len(L)) =>
        \A i \in 1..Len(L) : IntRowOK(e, L[i], e.ret[i]) ]
PIFails(e) == { k \in DOMAIN PIClauses(e) : ~PIClauses(e)[k] }

\* design-level sanity of the universe (non-vacuity of the selection): a sample on a shared boundary belongs to both intervals
BoundaryShared == \A i \in 1..(Len(c.ivs) - 1) : c.ivs[i].e = c.ivs[i + 1].s =>
                     \A k \in 1..Len(c.data) : c.data[k].t = c.ivs[i].e =>
                        LET ee == [data |-> [j \in 1..Len(c.data) |-> [t |-> c.data[j].t, f0 |-> c.data[j].f0, in |-> IntOf(c.data[j].f0)]], ivs |-> c.ivs]
                        IN ee.data[k] \in {Inside(ee, c.ivs[i])[j] : j \in 1..Len(Inside(ee, c.ivs[i]))}
                           /\ ee.data[k] \in {Inside(ee, c.ivs[i + 1])[j] : j \in 1..Len(Inside(ee, c.ivs[i + 1]))}
EmitInv == IF Emit THEN PrintT(ToJson(c)) ELSE TRUE
=============================================================================
