------------------------------ MODULE ScriptsProp ------------------------------
(***************************************************************************)
(* What a user of splitTierEntries / spellCheckEntries relies on, as named *)
(* clauses over one event                                                  *)
(*   [op, args, pre (textgrid), st, ret (textgrid or NoTg), post (the      *)
(*    argument after the call), same (ret is the argument object),         *)
(*    exactfp]                                                             *)
(* These are not listed properties (ids X01, X02); the clauses are written *)
(* from the docstrings, with two deviations of the code that the clauses   *)
(* leave open and ScriptsImpl models as it is:                             *)
(*   D1  an entry without words in the examined range: the docstring has   *)
(*       nothing to say; the code divides by zero                          *)
(*   D2  under inexact arithmetic start + n * ((end - start) / n) may pass *)
(*       end by an ulp and the following adjacent entry then makes the     *)
(*       constructor raise TextgridStateError (or insertEntry raise        *)
(*       CollisionError when an existing target tier is filled in)         *)
(***************************************************************************)
EXTENDS ScriptsImpl

FailsOfX(r) == {k \in DOMAIN r : ~r[k]}
OkX(e) == e.st = "ok"
Others(tg, n) == SelectSeq(tg.tiers, LAMBDA t : t.name # n)

\* the equal parts of one interval, one per word, in order
Parts(iv) == LET n == Len(iv.l) IN
  [i \in 1..n |-> Iv(iv.s + ((iv.e - iv.s) * (i - 1)) \div n, iv.s + ((iv.e - iv.s) * i) \div n, <<iv.l[i]>>)]
\* the part of an interval list inside [a, b], cut at a and b
Inside(es, a, b) == LET k == SelectSeq(es, LAMBDA iv : iv.e > a /\ iv.s < b)
                    IN [i \in Idx(k) |-> Iv(Max2(k[i].s, a), Min2(k[i].e, b), k[i].l)]
\* the part outside (a, b), cut at a and b
Outside(es, a, b) == Concat([i \in Idx(es) |->
     (IF es[i].s < a THEN <<Iv(es[i].s, Min2(es[i].e, a), es[i].l)>> ELSE <<>>) \o
     (IF es[i].e > b THEN <<Iv(Max2(es[i].s, b), es[i].e, es[i].l)>> ELSE <<>>)])

SplitClauses(e) ==
  LET tg == e.pre  src == e.args.src  dst == e.args.dst
      ranged == e.args.a # None \/ e.args.b # None
      a == IF e.args.a = None THEN tg.lo ELSE e.args.a
      b == IF e.args.b = None THEN tg.hi ELSE e.args.b
      has == HasName(tg, src)
      srcEnts == IF ~has THEN <<>> ELSE IF ranged THEN Inside(TierNamed(tg, src).ents, a, b) ELSE TierNamed(tg, src).ents
      blank == HasBlank(srcEnts)
      defined == has /\ (ranged => a < b) /\ ~blank
      old == IF ranged /\ HasName(tg, dst) THEN Outside(TierNamed(tg, dst).ents, a, b) ELSE <<>>
      expect == SortIv(old \o Concat([i \in Idx(srcEnts) |-> Parts(srcEnts[i])]))
      \* D2: something starts exactly where the last part of a source entry ends
      adjacent == \E i \in Idx(srcEnts), j \in Idx(expect) : expect[j].s = srcEnts[i].e
      good == OkX(e) /\ defined /\ HasName(e.ret, dst)
      T == TierNamed(e.ret, dst)
  IN [ X01_missing_source_raises |-> (~has) => ~OkX(e),
       X01_empty_or_reversed_range_raises |-> (has /\ ranged /\ a >= b) => ~OkX(e),
       \* D2: an adjacent following entry may be hit by the rounding of the last part's end
       X01_succeeds_when_defined |-> defined => (OkX(e) \/ (~e.exactfp /\ adjacent /\ e.st \in {"TextgridStateError", "CollisionError"})),
       X01_failed_call_changes_nothing |-> (~OkX(e)) => e.post = tg,
       X01_result_is_the_edited_argument |-> OkX(e) => (e.same /\ e.ret = e.post),
       X01_target_tier_present_and_last |-> (OkX(e) /\ defined) =>
            (HasName(e.ret, dst) /\ e.ret.tiers[Len(e.ret.tiers)].name = dst),
       X01_other_tiers_untouched_in_order |-> OkX(e) => Others(e.ret, dst) = Others(tg, dst),
       X01_textgrid_span_kept |-> OkX(e) => (e.ret.lo = tg.lo /\ e.ret.hi = tg.hi),
       X01_one_part_per_word_equal_lengths_in_order |-> good => T.ents = expect,
       X01_target_span |-> good => (T.lo = (IF ranged /\ HasName(tg, dst) THEN TierNamed(tg, dst).lo ELSE tg.lo) /\
                                    T.hi = (IF ranged /\ HasName(tg, dst) THEN TierNamed(tg, dst).hi ELSE tg.hi)),
       X01_target_is_interval_tier |-> good => T.kind = "I" ]

SpellClauses(e) ==
  LET tg == e.pre  src == e.args.src  dst == e.args.dst  bad == e.args.bad
      has == HasName(tg, src)
      isI == has /\ TierNamed(tg, src).kind = "I"
      defined == isI /\ ~HasName(tg, dst)
      es == IF isI THEN TierNamed(tg, src).ents ELSE <<>>
      wrong(iv) == SelectSeq(Cores(iv.l), LAMBDA c : c \in bad)
      hits == SelectSeq(es, LAMBDA iv : wrong(iv) # <<>>)
      expect == [i \in Idx(hits) |-> Iv(hits[i].s, hits[i].e, [k \in Idx(wrong(hits[i])) |-> [c |-> wrong(hits[i])[k], p |-> FALSE]])]
      good == OkX(e) /\ defined /\ HasName(e.ret, dst)
  IN [ X02_missing_source_raises |-> (~has) => ~OkX(e),
       X02_existing_result_name_raises |-> (has /\ HasName(tg, dst)) => ~OkX(e),
       X02_succeeds_when_defined |-> defined => OkX(e),
       X02_argument_never_changes |-> e.post = tg,
       X02_result_is_a_new_textgrid |-> OkX(e) => ~e.same,
       X02_new_tier_appended |-> (OkX(e) /\ defined) => (HasName(e.ret, dst) /\ e.ret.tiers[Len(e.ret.tiers)].name = dst),
       X02_original_tiers_kept_in_order |-> OkX(e) => Others(e.ret, dst) = tg.tiers,
       X02_marks_exactly_the_entries_with_rejected_words |-> good => TierNamed(e.ret, dst).ents = expect,
       X02_new_tier_spans_the_textgrid |-> good => (TierNamed(e.ret, dst).lo = tg.lo /\ TierNamed(e.ret, dst).hi = tg.hi) ]

ScriptsFails(e) == CASE e.op = "split" -> FailsOfX(SplitClauses(e))
                     [] e.op = "spell" -> FailsOfX(SpellClauses(e))
                     [] OTHER -> {"UNKNOWN_OP"}
=============================================================================
