----------------------------- MODULE QueryProp -----------------------------
(***************************************************************************)
(* C15: queries and derived views against their definitions.               *)
(* Events: [op, args, pre (tier), ret, st, ...]; labels that are searched   *)
(* are given as sequences of one-character strings (e.labs, e.args.q).     *)
(***************************************************************************)
EXTENDS Grid

FailsOfQ(r) == {k \in DOMAIN r : ~r[k]}
OkQ(e) == e.st = "ok"
SetOfSeq(s) == {s[i] : i \in Idx(s)}

(* ---------------- find ------------------------------------------------------ *)
Lower(c) == CASE c = "A" -> "a" [] c = "B" -> "b" [] c = "C" -> "c" [] OTHER -> c
LowerSeq(s) == [i \in Idx(s) |-> Lower(s[i])]
IsSubAt(q, l, k) == k + Len(q) - 1 <= Len(l) /\ \A i \in Idx(q) : l[k + i - 1] = q[i]
HasSub(l, q) == q = <<>> \/ \E k \in 1..Len(l) : IsSubAt(q, l, k)
StartsWith(l, q) == Len(q) <= Len(l) /\ IsSubAt(q, l, 1)
EndsWith(l, q) == Len(q) <= Len(l) /\ IsSubAt(q, l, Len(l) - Len(q) + 1)
\* the closed mini-family of regular expressions, matched case-insensitively anywhere in the label (re.findall ... re.I)
ReMatches(p, l0) ==
  LET l == LowerSeq(l0)  a == LowerSeq(p.a)  b == LowerSeq(p.b) IN
  CASE p.kind = "lit" -> HasSub(l, a)
    [] p.kind = "start" -> StartsWith(l, a)
    [] p.kind = "end" -> EndsWith(l, a)
    [] p.kind = "alt" -> HasSub(l, a) \/ HasSub(l, b)
    [] p.kind = "dot" -> l # <<>>
FindClauses(e) ==
  LET labs == e.labs
      want == CASE e.args.mode = "eq" -> {i \in Idx(labs) : labs[i] = e.args.q}
                [] e.args.mode = "sub" -> {i \in Idx(labs) : HasSub(labs[i], e.args.q)}
                [] e.args.mode = "re" -> {i \in Idx(labs) : ReMatches(e.args.pat, labs[i])}
  IN [ C15_find_returns_exactly_the_matching_indices |-> OkQ(e) /\ SetOfSeq(e.ret) = {i - 1 : i \in want},
       C15_find_indices_ascending |-> OkQ(e) => \A i \in 1..(Len(e.ret) - 1) : e.ret[i] < e.ret[i + 1] ]

(* ---------------- getNonEntries / timestamps ---------------------------------- *)
RECURSIVE Gaps(_, _, _)
Gaps(es, from, to) == IF es = <<>> THEN (IF from < to THEN <<[s |-> from, e |-> to]>> ELSE <<>>)
                      ELSE (IF from < Head(es).s THEN <<[s |-> from, e |-> Head(es).s]>> ELSE <<>>) \o Gaps(Tail(es), Head(es).e, to)
NonEntriesClauses(e) ==
  LET es == e.pre.ents  r == e.ret IN
  [ C15_nonentries_are_the_unlabelled_stretches |-> (es # <<>>) => (OkQ(e) /\ [i \in Idx(r) |-> [s |-> r[i].s, e |-> r[i].e]] = Gaps(es, 0, e.pre.hi)),
    C15_nonentries_positive_length |-> OkQ(e) => \A i \in Idx(r) : r[i].s < r[i].e ]
TimestampsClauses(e) ==
  LET want == IF e.pre.kind = "I" THEN Bounds(e.pre.ents) ELSE Times(e.pre.ents) IN
  [ C15_timestamps_sorted_set_of_boundaries |-> OkQ(e) /\ SetOfSeq(e.ret) = want /\ Len(e.ret) = Cardinality(want)
                                                 /\ \A i \in 1..(Len(e.ret) - 1) : e.ret[i] < e.ret[i + 1] ]

(* ---------------- samples in intervals / at points ------------------------------ *)
\* data: sequence of [t, id] (ids distinct)
InIntervalsClauses(e) ==
  LET es == e.pre.ents  d == e.args.data IN
  [ C15_values_in_intervals |-> OkQ(e) /\ Len(e.ret) = Len(es) /\ \A i \in Idx(es) :
        e.ret[i] = [k \in Idx(SelectSeq(d, LAMBDA x : es[i].s <= x.t /\ x.t <= es[i].e)) |->
                       SelectSeq(d, LAMBDA x : es[i].s <= x.t /\ x.t <= es[i].e)[k].id] ]
AtPointsClauses(e) ==
  LET ps == e.pre.ents  d == e.args.data
      at(t) == {k \in Idx(d) : d[k].t = t}
      dist(t) == MinOf({AbsV(d[k].t - t) : k \in Idx(d)})
  IN [ C15_value_at_point_exact |-> (~e.args.fuzzy) => (OkQ(e) /\ Len(e.ret) = Len(ps) /\ \A i \in Idx(ps) :
             IF at(ps[i].t) = {} THEN e.ret[i] = -1 ELSE \E k \in at(ps[i].t) : e.ret[i] = d[k].id),
       C15_value_at_point_nearest |-> (e.args.fuzzy /\ d # <<>>) => (OkQ(e) /\ Len(e.ret) = Len(ps) /\ \A i \in Idx(ps) :
             \E k \in Idx(d) : e.ret[i] = d[k].id /\ AbsV(d[k].t - ps[i].t) = dist(ps[i].t)) ]

(* ---------------- interval helpers ---------------------------------------------- *)
OverlapClauses(e) ==
  LET a == e.args.a  b == e.args.b
      pos == a.s < b.e /\ b.s < a.e
      touch == a.s = b.e \/ a.e = b.s
      \* optional thresholds, one at a time (0 = not given): the overlap must be at least pct percent of the joint extent /
      \* at least tthr long
      ov == Min2(a.e, b.e) - Max2(a.s, b.s)
      total == Max2(a.e, b.e) - Min2(a.s, b.s)
      enough == (e.args.pct > 0 => ov * 100 >= e.args.pct * total) /\ (e.args.tthr > 0 => ov >= e.args.tthr)
  IN [ C15_overlap_test_agrees_with_interval_arithmetic |-> OkQ(e) /\ (e.ret <=> ((pos /\ enough) \/ (e.args.inclusive /\ touch))) ]
InvertClauses(e) ==
  [ C15_complement_of_interval_list_within_bounds |-> OkQ(e) /\ e.ret = Gaps(e.args.ivs, e.args.lo, e.args.hi) ]

(* ---------------- equality, validate ---------------------------------------------- *)
\* e.ret = <<a == a, a == b, b == a, b == b>> where b is a with one field perturbed (e.args.what), or an equal copy ("none")
EqClauses(e) ==
  [ C15_equality_reflexive |-> OkQ(e) /\ e.ret[1] /\ e.ret[4],
    C15_equality_symmetric |-> OkQ(e) => e.ret[2] = e.ret[3],
    C15_equality_of_equal_copies |-> (OkQ(e) /\ e.args.what = "none") => e.ret[2],
    C15_equality_distinguishes_any_change |-> (OkQ(e) /\ e.args.what # "none") => ~e.ret[2] ]
\* validate() is False exactly when a span mismatch or an out-of-span / out-of-order entry exists (e.args.what names the corruption)
ValidateClauses(e) ==
  [ C15_validate_false_exactly_when_corrupted |-> OkQ(e) /\ (e.ret <=> e.args.what = "none") ]

QueryFails(e) == CASE e.op = "find" -> FailsOfQ(FindClauses(e))
                   [] e.op = "nonEntries" -> FailsOfQ(NonEntriesClauses(e))
                   [] e.op = "timestamps" -> FailsOfQ(TimestampsClauses(e))
                   [] e.op = "valuesInIntervals" -> FailsOfQ(InIntervalsClauses(e))
                   [] e.op = "valuesAtPoints" -> FailsOfQ(AtPointsClauses(e))
                   [] e.op = "overlapCheck" -> FailsOfQ(OverlapClauses(e))
                   [] e.op = "invert" -> FailsOfQ(InvertClauses(e))
                   [] e.op = "eq" -> FailsOfQ(EqClauses(e))
                   [] e.op = "validate" -> FailsOfQ(ValidateClauses(e))
                   [] OTHER -> {"UNKNOWN_OP"}
=============================================================================
