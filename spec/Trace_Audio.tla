----------------------------- MODULE Trace_Audio -----------------------------
(* Trace validation for the audio family (C16, C17, C18): clause sets of AudioProp and ZeroCrossProp. *)
EXTENDS AudioProp, ZeroCrossProp, TLC, TLCExt, Json, IOUtils

Events == ndJsonDeserialize(IOEnv.TRACE_FILE)
FailsE(e) == IF e.fam = "zc" THEN ZcFails(e) ELSE AudioFails(e)

VARIABLE l
TraceInit == l = 1
TraceNext == /\ l <= Len(Events)
             /\ LET e == Events[l]
                    f == FailsE(e)
                IN IF f = {} THEN TRUE ELSE PrintT(<<"VERDICT", e.id, f>>)
             /\ l' = l + 1
TraceSpec == TraceInit /\ [][TraceNext]_l
AllConsumed == TLCGet("stats").diameter - 1 = Len(Events)
=============================================================================
