------------------------------ MODULE TgImpl ------------------------------
(***************************************************************************)
(* Code-shaped transcription of praatio/data_classes/textgrid.py.          *)
(* A textgrid is [lo, hi, tiers] with tiers a sequence of tier records     *)
(* (Grid.tla) whose names are the keys of the ordered map; Unset (-1)      *)
(* stands for a span that is still None.                                   *)
(* Results: [st, ret (textgrid or NoTg), rett (tier or NoTier), post, out] *)
(***************************************************************************)
EXTENDS TierImpl

Unset == -1
NoTg == [lo |-> -2, hi |-> -2, tiers |-> <<>>]
IsTg(x) == x.lo # -2
MkTg(lo, hi, tiers) == [lo |-> lo, hi |-> hi, tiers |-> tiers]
EmptyTg(lo, hi) == MkTg(lo, hi, <<>>)

Names(tg) == [i \in Idx(tg.tiers) |-> tg.tiers[i].name]
HasName(tg, n) == \E i \in Idx(tg.tiers) : tg.tiers[i].name = n
IndexOfName(tg, n) == CHOOSE i \in Idx(tg.tiers) : tg.tiers[i].name = n
TierNamed(tg, n) == tg.tiers[IndexOfName(tg, n)]
Without(tg, n) == [tg EXCEPT !.tiers = SelectSeq(tg.tiers, LAMBDA t : t.name # n)]

TRes(st, ret, rett, post, out) == [st |-> st, ret |-> ret, rett |-> rett, post |-> post, out |-> out]
TFail(st, tg) == TRes(st, NoTg, NoTier, tg, FALSE)

(* ---------------- addTier(tier, tierIndex, reportingMode) ----------------- *)
(* idx = 99 stands for tierIndex=None (append).  After the fix the span       *)
(* report (which raises in mode "error") comes before the insertion.          *)
Widens(tg, t) == (tg.lo # Unset /\ t.lo < tg.lo) \/ (tg.hi # Unset /\ t.hi > tg.hi)
Widened(tg, t) == [tg EXCEPT !.lo = IF tg.lo = Unset \/ t.lo < tg.lo THEN t.lo ELSE tg.lo,
                             !.hi = IF tg.hi = Unset \/ t.hi > tg.hi THEN t.hi ELSE tg.hi]
AddTier(tg, t, idx, mode) ==
  IF HasName(tg, t.name) THEN TFail("TierNameExistsError", tg)
  ELSE IF mode = "error" /\ Widens(tg, t) THEN TFail("TextgridStateAutoModified", tg)
  ELSE LET ts == IF idx = 99 THEN Append(tg.tiers, t) ELSE PyInsert(tg.tiers, idx, t)
       IN TRes("ok", NoTg, NoTier, Widened([tg EXCEPT !.tiers = ts], t), mode = "warning" /\ Widens(tg, t))

(* ---------------- removeTier(name): dict.pop ------------------------------ *)
RemoveTier(tg, n) ==
  IF ~HasName(tg, n) THEN TFail("KeyError", tg)
  ELSE TRes("ok", NoTg, TierNamed(tg, n), Without(tg, n), FALSE)

(* ---------------- renameTier(old, new) ------------------------------------ *)
RenameTier(tg, old, new) ==
  IF ~HasName(tg, old) THEN TFail("KeyError", tg)
  ELSE IF new # old /\ HasName(tg, new) THEN TFail("TierNameExistsError", tg)
  ELSE LET i == IndexOfName(tg, old)
           nt == [tg.tiers[i] EXCEPT !.name = new]
           r == AddTier(Without(tg, old), nt, i - 1, "warning")      \* python index = i - 1
       IN TRes("ok", NoTg, NoTier, r.post, r.out)

(* ---------------- replaceTier(name, newTier, reportingMode) ---------------- *)
ReplaceTier(tg, n, t, mode) ==
  IF ~HasName(tg, n) THEN TFail("ValueError", tg)
  ELSE IF t.name # n /\ HasName(tg, t.name) THEN TFail("TierNameExistsError", tg)
  ELSE LET i == IndexOfName(tg, n)
           r == AddTier(Without(tg, n), t, i - 1, mode)
       IN IF r.st # "ok" THEN TFail(r.st, tg)                           \* the removed tier is put back
          ELSE TRes("ok", NoTg, NoTier, r.post, r.out)

(* ---------------- tier-wise edits ------------------------------------------ *)
(* fold: apply a tier operation to every tier and add the results to a fresh  *)
(* textgrid; the first failing tier operation or addTier aborts the call      *)
RECURSIVE AddAll(_, _, _, _)
AddAll(acc, rs, mode, i) ==
  IF acc.st # "ok" \/ i > Len(rs) THEN acc
  ELSE IF rs[i].st # "ok" THEN [st |-> rs[i].st, tg |-> acc.tg, out |-> acc.out]
  ELSE LET a == AddTier(acc.tg, rs[i].ret, 99, mode)
       IN AddAll([st |-> a.st, tg |-> a.post, out |-> acc.out \/ a.out \/ rs[i].out], rs, mode, i + 1)

CropTg(tg, a, b, mode, rebase) ==
  IF a >= b THEN TFail("ArgumentError", tg)
  ELSE LET base == IF rebase THEN EmptyTg(0, b - a) ELSE EmptyTg(a, b)
           rs == [i \in Idx(tg.tiers) |-> Crop(tg.tiers[i], a, b, mode, rebase)]
           f == AddAll([st |-> "ok", tg |-> base, out |-> FALSE], rs, IF mode = "lax" THEN "silence" ELSE "warning", 1)
       IN IF f.st # "ok" THEN TFail(f.st, tg) ELSE TRes("ok", f.tg, NoTier, tg, f.out)

EraseTg(tg, a, b, shrink) ==
  IF a >= b THEN TFail("ArgumentError", tg)
  ELSE LET rs == [i \in Idx(tg.tiers) |-> Erase(tg.tiers[i], a, b, "truncate", shrink)]
           f == AddAll([st |-> "ok", tg |-> EmptyTg(tg.lo, tg.hi), out |-> FALSE], rs, "warning", 1)
       IN IF f.st # "ok" THEN TFail(f.st, tg)
          ELSE TRes("ok", [f.tg EXCEPT !.hi = IF shrink THEN tg.hi - (b - a) ELSE tg.hi], NoTier, tg, f.out)

SpaceTg(tg, s, d, mode) ==
  LET rs == [i \in Idx(tg.tiers) |-> InsertSpace(tg.tiers[i], s, d, mode)]
      f == AddAll([st |-> "ok", tg |-> EmptyTg(tg.lo, tg.hi + d), out |-> FALSE], rs, "warning", 1)
  IN IF f.st # "ok" THEN TFail(f.st, tg) ELSE TRes("ok", f.tg, NoTier, tg, f.out)

EditTg(tg, o, mode) ==
  LET rs == [i \in Idx(tg.tiers) |-> IF tg.tiers[i].ents = <<>> THEN Ok(tg.tiers[i], tg.tiers[i]) ELSE Edit(tg.tiers[i], o, mode)]
      f == AddAll([st |-> "ok", tg |-> EmptyTg(tg.lo, tg.hi), out |-> FALSE], rs, mode, 1)
  IN IF f.st # "ok" THEN TFail(f.st, tg) ELSE TRes("ok", f.tg, NoTier, tg, f.out)

(* ---------------- appendTextgrid(tg2, onlyMatchingNames) -------------------- *)
AppendTg(tg, other, onlyMatching) ==
  LET lo == tg.lo
      hi == tg.hi + other.hi
      combined == Names(tg) \o SelectSeq(Names(other), LAMBDA n : ~HasName(tg, n))
      final == IF onlyMatching THEN SelectSeq(combined, LAMBDA n : HasName(tg, n) /\ HasName(other, n)) ELSE combined
      one(n) ==
        IF HasName(tg, n) /\ HasName(other, n)
        THEN LET a == TierNamed(tg, n)
                 b == TierNamed(other, n)
                 sh == Edit(ConsK(b.kind, b.name, b.ents, lo, hi).tier, tg.hi, "warning")
             \* tiers of different types under one name: the entry lists are concatenated and handed to the receiver's
             \* constructor, which fails to unpack a foreign entry (ValueError) - unless there is none
             IN IF a.kind # b.kind THEN (IF b.ents = <<>> THEN ConsK(a.kind, a.name, a.ents, lo, hi) ELSE [st |-> "ValueError"])
                ELSE IF sh.st # "ok" THEN [st |-> sh.st]
                ELSE ConsK(a.kind, a.name, a.ents \o sh.ret.ents, lo, hi)
        ELSE IF HasName(tg, n) THEN [st |-> "ok", tier |-> TierNamed(tg, n)]
        ELSE LET b == TierNamed(other, n)
                 sh == Edit(ConsK(b.kind, b.name, b.ents, lo, hi).tier, tg.hi, "warning")
             IN IF sh.st # "ok" THEN [st |-> sh.st] ELSE [st |-> "ok", tier |-> [sh.ret EXCEPT !.lo = Min2(lo, @), !.hi = Max2(hi, @)]]
      rs == [i \in Idx(final) |-> one(final[i])]
  IN IF \E i \in Idx(rs) : rs[i].st # "ok" THEN TFail(rs[CHOOSE i \in Idx(rs) : rs[i].st # "ok"].st, tg)
     ELSE TRes("ok", MkTg(lo, hi, [i \in Idx(rs) |-> rs[i].tier]), NoTier, tg, FALSE)

(* ---------------- mergeTiers(tierNames, preserveOtherTiers) ------------------ *)
RECURSIVE UnionFold(_, _)
UnionFold(acc, ts) == IF ts = <<>> \/ acc.st # "ok" THEN acc
                      ELSE LET u == Union(acc.tier, Head(ts)) IN UnionFold([st |-> u.st, tier |-> u.ret], Tail(ts))
MergeTg(tg, names, preserve) ==
  LET sel == SelectSeq(tg.tiers, LAMBDA t : \E i \in Idx(names) : names[i] = t.name)
      \* the code walks tierNames in the order given; selection order = order of names
      ordered == [i \in Idx(names) |-> TierNamed(tg, names[i])]
      ivs == SelectSeq(ordered, LAMBDA t : t.kind = "I")
      pts == SelectSeq(ordered, LAMBDA t : t.kind = "P")
      mi == IF ivs = <<>> THEN [st |-> "none"] ELSE UnionFold([st |-> "ok", tier |-> ivs[1]], Tail(ivs))
      mp == IF pts = <<>> THEN [st |-> "none"] ELSE UnionFold([st |-> "ok", tier |-> pts[1]], Tail(pts))
      others == IF preserve THEN SelectSeq(tg.tiers, LAMBDA t : ~\E i \in Idx(names) : names[i] = t.name) ELSE <<>>
      merged == (IF mi.st = "ok" THEN <<mi.tier>> ELSE <<>>) \o (IF mp.st = "ok" THEN <<mp.tier>> ELSE <<>>)
      rs == [i \in Idx(others \o merged) |-> Ok((others \o merged)[i], (others \o merged)[i])]
      f == AddAll([st |-> "ok", tg |-> EmptyTg(tg.lo, tg.hi), out |-> FALSE], rs, "warning", 1)
  IN IF \E i \in Idx(names) : ~HasName(tg, names[i]) THEN TFail("KeyError", tg)
     ELSE IF mi.st \notin {"ok", "none"} THEN TFail(mi.st, tg)
     ELSE IF mp.st \notin {"ok", "none"} THEN TFail(mp.st, tg)
     ELSE IF f.st # "ok" THEN TFail(f.st, tg) ELSE TRes("ok", f.tg, NoTier, tg, f.out)

NewTg(tg) == TRes("ok", tg, NoTier, tg, FALSE)

(* validate(): every tier shares the textgrid's span and is itself valid, names unique *)
ValidTg(tg) == /\ \A i, j \in Idx(tg.tiers) : i # j => tg.tiers[i].name # tg.tiers[j].name
               /\ \A i \in Idx(tg.tiers) : tg.tiers[i].lo = tg.lo /\ tg.tiers[i].hi = tg.hi /\ WFTier(tg.tiers[i])
=============================================================================
