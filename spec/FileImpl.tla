------------------------------ MODULE FileImpl ------------------------------
(***************************************************************************)
(* Code-shaped transcription of the save preparation in                    *)
(* utilities/textgrid_io.py: _fillInBlanks, _removeUltrashortIntervals     *)
(* (both passes) and _prepTgForSaving, on grid numbers; T2 is twice the    *)
(* threshold so that half units are expressible.                           *)
(***************************************************************************)
EXTENDS FileProp

AbsI(x) == IF x < 0 THEN -x ELSE x

RECURSIVE FillRest(_, _, _)
FillRest(rest, prevEnd, acc) ==
  IF rest = <<>> THEN acc
  ELSE LET x == Head(rest)
           acc2 == IF prevEnd < x.s THEN Append(acc, [s |-> prevEnd, e |-> x.s, l |-> <<>>]) ELSE acc
       IN FillRest(Tail(rest), x.e, Append(acc2, x))
FillImpl(es, lo, hi) ==
  LET es0 == IF es = <<>> THEN <<[s |-> lo, e |-> hi, l |-> <<>>]>> ELSE es
      body == FillRest(Tail(es0), es0[1].e, <<es0[1]>>)
  IN IF body[1].s < lo THEN [st |-> "ParsingError"]
     ELSE LET b1 == IF body[1].s > lo THEN <<[s |-> lo, e |-> body[1].s, l |-> <<>>]>> \o body ELSE body
          IN IF b1[Len(b1)].e > hi THEN [st |-> "ParsingError"]
             ELSE [st |-> "ok", ents |-> IF b1[Len(b1)].e < hi THEN Append(b1, [s |-> b1[Len(b1)].e, e |-> hi, l |-> <<>>]) ELSE b1]

RECURSIVE Pass1(_, _, _, _)
Pass1(rest, acc, lo, T2) ==
  IF rest = <<>> THEN acc
  ELSE LET x == Head(rest) IN
       IF 2 * (x.e - x.s) < T2
       THEN Pass1(Tail(rest), IF acc = <<>> THEN acc ELSE [acc EXCEPT ![Len(acc)].e = x.e], lo, T2)
       ELSE Pass1(Tail(rest), Append(acc, IF acc = <<>> /\ x.s # lo THEN [x EXCEPT !.s = lo] ELSE x), lo, T2)
RECURSIVE Pass2(_, _, _)
Pass2(es, j, T2) == IF j >= Len(es) THEN es
                    ELSE LET d == 2 * AbsI(es[j].e - es[j + 1].s) IN
                         Pass2(IF d > 0 /\ d < T2 THEN [es EXCEPT ![j].e = es[j + 1].s] ELSE es, j + 1, T2)
ShortImpl(es, lo, T2) == Pass2(Pass1(es, <<>>, lo, T2), 1, T2)

\* what the writers receive for one interval tier
PrepImpl(es, lo, hi, blanks, useT, T2) ==
  IF ~blanks THEN [st |-> "ok", ents |-> es]
  ELSE LET f == FillImpl(es, lo, hi) IN
       IF f.st # "ok" THEN f ELSE [st |-> "ok", ents |-> IF useT THEN ShortImpl(f.ents, lo, T2) ELSE f.ents]
=============================================================================
