#!/bin/bash
# Offline setup: verifies the tools, that praatio resolves to /repo, and SANY-parses every module.
cd "$(dirname "$0")" || exit 1
set -e
command -v java >/dev/null
test -f /opt/veriftools/tla/tla2tools.jar
/venv/bin/python - <<'PY'
import sys
sys.path.insert(0, "/verif")
from harness import tier
tier.praatio()
print("praatio imports from /repo: ok")
PY
cd spec
for m in *.tla; do
  java -cp /opt/veriftools/tla/tla2tools.jar:/opt/veriftools/tla/CommunityModules-deps.jar tla2sany.SANY "$m" > /tmp/praatio-verif-sany.$$ 2>&1 || { cat /tmp/praatio-verif-sany.$$; rm -f /tmp/praatio-verif-sany.$$; exit 1; }
  if grep -q -i "error" /tmp/praatio-verif-sany.$$; then cat /tmp/praatio-verif-sany.$$; rm -f /tmp/praatio-verif-sany.$$; exit 1; fi
done
rm -f /tmp/praatio-verif-sany.$$
cd ..
mkdir -p evidence
echo "setup ok"
